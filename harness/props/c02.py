"""C02 — protocol autodetection is deterministic, ordered and strict about TLS.

Correspondence: class selected by the real ProtocolMultiplexer.getProtocol vs the model's
`detect`, on a near-miss grammar of request lines, both TLS values, the shipped order and
seeded permutations / sub-lists.  Oracle: an independent reading of the documented request
shapes; `secure == tls`; somebody answers; BaseServer.wrap_socket on a socketpair for all
256 first bytes.
"""
import re
import socket

import pyg
from leanio import enc_str, enc_list, dec_str
from main import Result

SHORT = {"WAPProtocol": "wap", "GeminiProtocol": "gemini", "HTTPProtocol": "http", "HTTPSProtocol": "https",
         "SpartanProtocol": "spartan", "GopherPlusProtocol": "gopherp", "SecureGopherPlusProtocol": "sgopherp",
         "GopherProtocol": "gopher", "SecureGopherProtocol": "sgopher"}
SECURE = {"WAPProtocol": False, "GeminiProtocol": True, "HTTPProtocol": False, "HTTPSProtocol": True,
          "SpartanProtocol": False, "GopherPlusProtocol": False, "SecureGopherPlusProtocol": True,
          "GopherProtocol": False, "SecureGopherProtocol": True}


def gen_line(rng):
    """-> (first line bytes incl. terminator, rest bytes)"""
    k = rng.randrange(10)
    eol = rng.choice([b"\r\n", b"\n", b"", b"\r\n", b" \r\n", b"\t\r\n"])
    rest = b""
    if k <= 2:  # gopher-ish with tab fields
        nf = rng.randrange(1, 6)
        fields = [rng.choice([b"/README", b"", b"/", b"/a b", b"gemini://x", b"GET / HTTP/1.0", b"h /p 0", b"/d\xff"])]
        for _ in range(nf - 1):
            fields.append(rng.choice([b"", b" ", b"+", b"!", b"$", b"+x", b"$abc", b"x", b" + ", b"!!", b" !",
                                      b"+ ", b"\x0b", b"\xc2\xa0", b"query words", b"+text/plain"]))
        line = b"\t".join(fields) + eol
    elif k <= 5:  # http-ish
        m = rng.choice([b"GET", b"HEAD"]) if rng.random() < 0.75 else rng.choice([b"POST", b"get", b"GET\t", b" GET", b"GETX", b""])
        p = rng.choice([b"/", b"/wap", b"/wap/x", b"/wapiti", b"/x?y=1", b"/wap?searchrequest=q", b"wap",
                        b"/a%20b", b"/WAP/x", b"", b"/wa", b"/wap/", b"/\xe9"])
        v = rng.choice([b"HTTP/1.0", b"HTTP/1.1", b"HTTP/"]) if rng.random() < 0.75 else rng.choice(
            [b"HTT", b"http/1.0", b"", b"HTTP/1.0 x", b"xHTTP/1.0", b"HTTP/1.0\t+", b"0", b"12"])
        sep1 = b" " if rng.random() < 0.9 else rng.choice([b"  ", b"\t"])
        sep2 = b" " if rng.random() < 0.9 else rng.choice([b"  ", b"\t"])
        line = m + sep1 + p + sep2 + v + eol
        if rng.random() < 0.6:
            hs = []
            for _ in range(rng.randrange(0, 4)):
                hs.append(rng.choice([
                    b"Accept: text/html, text/vnd.wap.wml", b"Accept:text/vnd.wap.wml", b"accept: x,text/vnd.wap.wml",
                    b"Accept: text/vnd.wap.wml", b"Accept: text/vnd.wap.wml, text/html;q=0.5", b"Accept:\ttext/vnd.wap.wml", b"Accept:  text/vnd.wap.wml",
                    b"Accept: text/vndxwapywml", b"ACCEPT: a text/vnd.wap.wml", b"Accept: text/html",
                    b"x-wap-profile: http://x", b"X-Up-Devcap-Max-Pdu: 1", b"Host: h", b"Junk line", b"Accept",
                    b" Accept : text/vnd.wap.wml", b"Accept: text/vnd\nwap.wml", b"accept: ,text/vnd.wap.wml"]))
            rest = b"".join(h + rng.choice([b"\r\n", b"\n"]) for h in hs) + rng.choice([b"\r\n", b"", b"\n"])
    elif k == 6:  # spartan-ish
        h = rng.choice([b"host", b"", b"h\xe9", b"example.org"])
        p = rng.choice([b"/", b"/x", b"", b"/a%20b", b"/\xe9"])
        n = rng.choice([b"0", b"12", b"-1", b"", b"1x", b"\xd9\xa3", b"007", b"+1"])
        sep = rng.choice([b" ", b" ", b"  ", b"\t"])
        line = h + sep + p + b" " + n + eol
        rest = b"x" * 12
    elif k == 7:  # gemini-ish
        line = rng.choice([b"gemini://", b"gemini:/", b" gemini://", b"GEMINI://", b"gemini://h/", b"gemini://h/a\tb"]) + \
            rng.choice([b"", b"x/y", b"?q", b"[::1/"]) + eol
    else:  # arbitrary bytes
        line = bytes(rng.choice([9, 32, 33, 36, 43, 47, 65, 71, 69, 84, 0, 255, 0xC3, 0xA9, 48, 72, 80])
                     for _ in range(rng.randrange(0, 14))) + eol
    line = line.replace(b"\n", b"") + (b"\n" if line.endswith(b"\n") else b"")
    return line, rest


def readlines(rest):
    """what successive rfile.readline() calls return"""
    out = []
    i = 0
    while i < len(rest):
        j = rest.find(b"\n", i)
        if j < 0:
            out.append(rest[i:])
            break
        out.append(rest[i:j + 1])
        i = j + 1
    return out


def oracle_shape(cls, tls, line, rest, waptop):
    """Independent reading of the documented request shapes."""
    if SECURE[cls] != tls:
        return False
    if cls in ("GopherProtocol", "SecureGopherProtocol"):
        return True
    if cls in ("GopherPlusProtocol", "SecureGopherPlusProtocol"):
        f = [x.strip() for x in line.split("\t")]
        return len(f) in (2, 3) and (f[-1] == "!" or f[-1][:1] in ("+", "$"))
    http = False
    f = [x.strip() for x in line.split(" ")]
    if len(f) == 3 and f[0] in ("GET", "HEAD") and f[2].startswith("HTTP/"):
        http = True
    if cls in ("HTTPProtocol", "HTTPSProtocol"):
        return http
    if cls == "WAPProtocol":
        if not http:
            return False
        path = f[1]
        if path == waptop or path.startswith(waptop + "/") or path.startswith(waptop + "?"):
            return True
        hdr = {}
        for raw in readlines(rest):
            h = raw.decode("utf-8", "surrogateescape").strip()
            if not h:
                break
            if ":" in h:
                k, v = h.split(":", 1)
                hdr[k.lower()] = v
        return ("accept" in hdr and re.search(r"[, ]text/vnd.wap.wml", hdr["accept"]) is not None
                and ("x-wap-profile" in hdr or "x-up-devcap-max-pdu" in hdr))
    if cls == "GeminiProtocol":
        return line.startswith("gemini://")
    if cls == "SpartanProtocol":
        if any(ord(c) > 127 for c in line):
            return False
        f = line.strip().split(" ")
        return len(f) == 3 and all(f) and f[1].startswith("/") and all("0" <= c <= "9" for c in f[2])
    raise ValueError(cls)


def sniff_all(res):
    """BaseServer.wrap_socket for every first byte."""
    from pygopherd.server import BaseServer

    class Ctx:
        def __init__(self):
            self.wrapped = 0

        def wrap_socket(self, sock, server_side=False):
            self.wrapped += 1
            return sock

    class FakeSelf:
        pass
    for b in range(256):
        a, s = socket.socketpair()
        try:
            payload = bytes([b, 1, 2, 3])
            a.sendall(payload)
            fs = FakeSelf()
            fs.context = Ctx()
            got = BaseServer.wrap_socket(fs, s)
            data = got.recv(16)
            res.evaluations += 1
            res.count("sniff:" + ("tls" if fs.context.wrapped else "plain"))
            if (fs.context.wrapped == 1) != (b == 0x16):
                res.violation("C02:sniff-wrong", "TLS decision differs from 'first byte is 0x16'", {"first_byte": b},
                              observed=fs.context.wrapped, required=b == 0x16, replay={"first_byte": b})
            if data != payload:
                res.violation("C02:sniff-consumes", "sniffing consumed request bytes", {"first_byte": b},
                              observed=data, required=payload, replay={"first_byte": b})
        finally:
            a.close()
            s.close()
    # a client that has sent nothing yet when the read times out (or the socket does not block): the decision needs the
    # first byte, so there is none to take -- returning the bare socket is deciding "plaintext" for a byte not yet seen
    for mode in ("timeout", "nonblocking"):
        a, s = socket.socketpair()
        try:
            if mode == "timeout":
                s.settimeout(0.05)
            else:
                s.setblocking(False)
            fs = FakeSelf()
            fs.context = Ctx()
            try:
                got = BaseServer.wrap_socket(fs, s)
                decided = "tls" if fs.context.wrapped else "plain"
            except (BlockingIOError, socket.timeout, OSError):
                decided = None
            res.evaluations += 1
            res.count("sniff-silent:" + str(decided))
            if decided is not None:
                a.sendall(b"\x16\x03\x01late hello")
                res.violation("C02:sniff-before-first-byte", "the TLS decision was taken before the connection's first byte arrived", {"mode": mode},
                              observed=f"decided {decided} with nothing received; the client then sends 0x16", required="no decision (the read's error propagates)",
                              replay={"silent": mode})
        finally:
            a.close()
            s.close()
    # without a TLS context nothing is ever wrapped
    a, s = socket.socketpair()
    try:
        a.sendall(b"\x16abc")
        fs = FakeSelf()
        fs.context = None
        got = BaseServer.wrap_socket(fs, s)
        if got is not s or got.recv(8) != b"\x16abc":
            res.violation("C02:sniff-nocontext", "wrap without a TLS context", {}, replay={})
    finally:
        a.close()
        s.close()


def run(ctx):
    res = Result()
    res.rule = ("lines from a near-miss grammar (tab fields, HTTP-ish, Spartan-ish, gemini-ish, header blocks, "
                "arbitrary bytes) x TLS flag x {shipped order, seeded permutations and sub-lists}; plus all 256 first "
                "bytes through wrap_socket. non-trivial = lines accepted by >= 2 shape predicates (order matters) "
                "or rejected by every class but the catch-all, distinct by (line, tls, order)")
    res.assumptions = ["MSG_PEEK semantics of the kernel", "a real TLS handshake is not part of the quick tier"]
    cfg0 = pyg.make_config("/nonexistent-root")
    shipped = [s.strip() for s in cfg0.get("protocols.ProtocolMultiplexer", "protocols").strip()[1:-1].split(",")]
    waptop = cfg0.get("protocols.wap.WAPProtocol", "waptop")
    n = ctx.n(2500, 60000)
    cases = []
    for i in range(n):
        line, rest = gen_line(ctx.rng)
        tls = ctx.rng.random() < 0.4
        order = list(shipped)
        r = ctx.rng.random()
        if r < 0.25:
            ctx.rng.shuffle(order)
        elif r < 0.4:
            order = [o for o in order if ctx.rng.random() < 0.7] or list(shipped)
        cases.append((line, rest, tls, order))
    # fixed corpus first
    corpus = [(b"/README\t\r\n", b"", False), (b"\t\r\n", b"", False), (b"GET /wapiti.txt HTTP/1.0\r\n", b"\r\n", False),
              (b"GET / HTTP/1.0\r\n", b"Accept: a,text/vnd.wap.wml\r\nx-wap-profile: p\r\n\r\n", False),
              (b"GET /hello.txt HTTP/1.1\r\n", b"Accept: text/vnd.wap.wml, text/html\r\nX-Wap-Profile: http://x\r\n\r\n", False),
              (b"GET /hello.txt HTTP/1.0\r\n", b"Accept: text/vnd.wap.wml\r\nX-Up-Devcap-Max-Pdu: 1400\r\n\r\n", False),
              (b"GET /hello.txt HTTP/1.0\r\n", b"Accept:text/vnd.wap.wml\r\nX-Up-Devcap-Max-Pdu: 1400\r\n\r\n", False),
              (b"h /p 0\r\n", b"", False), (b"h /p 0\r\n", b"", True), (b"/Symphony No 5\r\n", b"", False), (b"/a b 3\r\n", b"", False),
              (b"h p 0\r\n", b"", False), (b"/x /y 7\r\n", b"", False), (b"gemini://h/\r\n", b"", False),
              (b"gemini://h/\r\n", b"", True), (b"/x\t+\r\n", b"", True), (b"/x\t$\r\n", b"", False),
              (b"GET / HTTP/1.0\r\n", b"", True), (b"/a\tq\t!\r\n", b"", False), (b"/a\tb\tc\td\r\n", b"", False)]
    # header lines around and beyond 8 KiB (the WML type at the end of a long Accept list; a long header before the ones
    # that matter, of a length that is a multiple of a likely buffer size; header-shaped text deep inside an opaque header)
    wml = b"text/vnd.wap.wml"
    for total in (4095, 8190, 8191, 8192, 8193, 16384, 40000):
        pad = total - len(b"Accept: ") - len(wml) - 2
        acc = b"Accept: " + (b"text/html, " * (pad // 11 + 1))[:pad] + b", " + wml
        corpus.append((b"GET /hello.txt HTTP/1.0\r\n", acc + b"\r\nX-Wap-Profile: http://x\r\n\r\n", False))
        corpus.append((b"GET /hello.txt HTTP/1.0\r\n", b"Cookie: " + b"c" * (total - 8) + b"\r\nAccept: a, " + wml + b"\r\nX-Wap-Profile: p\r\n\r\n", False))
        corpus.append((b"GET /hello.txt HTTP/1.0\r\n", b"X-Opaque: " + b"o" * (total - 10) + b"x-wap-profile: 1\r\nAccept: a, " + wml + b"\r\n\r\n", False))
    cases = [(l, r, t, list(shipped)) for (l, r, t) in corpus] + cases
    lines = []
    impl = []
    for line, rest, tls, order in cases:
        cfg = cfg0
        if order != shipped:
            cfg = pyg.make_config("/nonexistent-root", **{"protocols.ProtocolMultiplexer|protocols": "[" + ", ".join(order) + "]"})
        dl = line.decode("utf-8", "surrogateescape")
        name, _ = pyg.get_protocol(dl, cfg, tls, rest)
        impl.append(name)
        rl = [x.decode("utf-8", "surrogateescape") for x in readlines(rest)]
        lines.append("detect\t%s\t%s\t%s\t%s" % (enc_list(order), "T" if tls else "F", enc_str(dl), enc_list(rl)))
    outs = ctx.driver.run(lines)
    for (line, rest, tls, order), name, o in zip(cases, impl, outs):
        res.evaluations += 1
        model = "NONE" if o == "NONE" else dec_str(o)
        if model != name:
            res.disagree("C02.detect", {"line": line, "rest": rest, "tls": tls, "order": order}, model, name)
        dl = line.decode("utf-8", "surrogateescape")
        res.count(f"answer:{name}")
        inp = {"line": line, "rest": rest, "tls": tls, "order": order}
        rp = {"line": line.decode("latin-1"), "rest": rest.decode("latin-1"), "tls": tls, "order": order}
        if name.startswith("EXC:"):
            res.violation("C02:detect-raises:" + name, "protocol detection raised", inp, observed=name,
                          required="a protocol class", replay=rp)
            continue
        classes = [o.split(".")[1] for o in order]
        accept = [c for c in classes if oracle_shape(c, tls, dl, rest, waptop)]
        if len(accept) >= 2 or accept in (["GopherProtocol"], ["SecureGopherProtocol"]):
            res.nontrivial.add((line, rest, tls, tuple(order)))
        expect = accept[0] if accept else "NONE"
        if name != expect:
            res.violation(f"C02:wrong-class:{expect}->{name}", "the answering class is not the first configured class whose documented shape matches",
                          inp, observed=name, required=expect, replay=rp)
        if name != "NONE" and SECURE.get(name) != tls:
            res.violation("C02:tls-mismatch", "protocol answered a connection of the other TLS kind", inp, observed=name,
                          required=f"secure == {tls}", replay=rp)
        if order == shipped and name == "NONE":
            res.violation("C02:unclaimed", "no protocol of the shipped list claimed the line", inp, observed=name,
                          required="some class", replay=rp)
    res.sample({"line": cases[0][0], "tls": cases[0][2], "answer": impl[0]})
    res.sample({"line": cases[20][0], "rest": cases[20][1], "tls": cases[20][2], "order": cases[20][3], "answer": impl[20]})
    sniff_all(res)
    long_lines(res, cfg0)
    res.degraded = list(pyg.degraded)
    return res


def long_lines(res, cfg):
    """Request lines far longer than any buffer, through the real connection handler (readline -> detection -> answer):
    the answer must come in the framing of the protocol whose shape the whole line has."""
    for n in (4090, 4200, 8200, 65530, 66000, 200000):
        pad = b"a" * n
        for line, tls, want, starts in ((b"GET /?pad=" + pad + b" HTTP/1.0\r\n\r\n", False, "HTTPProtocol", (b"HTTP/1.0 ",)),
                                         (b"/" + pad + b"\t+\r\n", False, "GopherPlusProtocol", (b"--", b"+")),
                                         (b"localhost /" + pad + b" 0\r\n", False, "SpartanProtocol", (b"4 ", b"5 ", b"2 ")),
                                         (b"/" + pad + b"\tq\t$\r\n", True, "SecureGopherPlusProtocol", (b"--", b"+")),
                                         (b"/" + pad + b"\r\n", False, "GopherProtocol", (b"3",))):
            r = pyg.request(line, cfg, tls=tls)
            res.evaluations += 1
            res.count("long-line:" + want)
            out = r.out or b""
            if r.exc is not None or not out.startswith(starts):
                res.violation(f"C02:wrong-class:{want}->long-line", "a long request line was not answered by the protocol whose shape it has",
                              {"line": line[:40] + b"..." + line[-16:], "length": len(line), "tls": tls}, observed=(repr(r.exc) if r.exc else out[:60]),
                              required="an answer of " + want, replay={"long_line": [line[:12].decode("latin-1"), n, line[12 + n:].decode("latin-1") if False else ""], "tls": tls})


def replay(data):
    rp = data["violation"]["replay"]
    if "long_line" in rp:
        r = Result()
        long_lines(r, pyg.make_config("/nonexistent-root"))
        print(r.violations)
        return 0
    if "first_byte" in rp or "silent" in rp:
        r = Result()
        sniff_all(r)
        print(r.violations)
        return 0
    cfg = pyg.make_config("/nonexistent-root", **{"protocols.ProtocolMultiplexer|protocols": "[" + ", ".join(rp["order"]) + "]"})
    name, _ = pyg.get_protocol(rp["line"].encode("latin-1").decode("utf-8", "surrogateescape"), cfg, rp["tls"],
                               rp["rest"].encode("latin-1"))
    print("line:", rp["line"].encode("latin-1"), "tls:", rp["tls"], "->", name)
    return 0
