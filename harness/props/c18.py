"""C18 — simpleTAL never lets data become markup, code or leftover state.

Tie: the model's expansion (machine and denote) vs real simpleTAL on the C17 grammar, here with
hostile context values (every string carries a canary with < > & " ') — the escaping theorems
speak about exactly these outputs; html.escape vs the model's htmlEscape on the canaries.
Oracles on the real code:
  (1) escaping canaries — a template without the `structure` keyword never emits a raw canary;
      with `structure` the output equals the independent evaluator's;
  (2) python: side-effect canary with allowPythonPath off (direct Context and through the
      TALFileHandler configuration switch), on = non-vacuity;
  (3) TAL-free documents from a document grammar: expansion is equivalent for an independent
      HTML reader (same elements, attributes, text) and a second expansion changes nothing;
  (4) context snapshot before/after, including missing paths and empty repeats.
"""
import copy
import html
import html.parser
import io
import logging
import os
import re

import pyg
import talgen
from leanio import dec_str, enc_str
from main import Result

logging.getLogger("simpleTALES").setLevel(logging.CRITICAL)
logging.getLogger("simpleTAL").setLevel(logging.CRITICAL)
logging.getLogger("simpleTALES.Context").setLevel(logging.CRITICAL)

from simpletal import simpleTAL, simpleTALES  # noqa: E402

PAYLOADS = ['<K%d x="y">&\'', '"><K%d x="y">', '\' onmouseover=\'K%d', '" onmouseover="K%d x="y"', '</p><K%d>', '<!--K%d--><K%d>', "]]><K%d x=\"y\">&amp;",
            '<script>K%d()</script><K%d>', '&lt;K%d&gt;<K%d>']


def hostile_ctx(rnd):
    n = [0]

    def p():
        n[0] += 1
        f = rnd.choice(PAYLOADS)
        return f.replace("%d", str(n[0]))
    return dict(s=p(), n=7, z=0, e="", lst=["a", p(), "c"], elst=[], m={"k": p(), "lst": [1, 2]}, none=None, nested=[[1, 2], [3]],
                people=[{"name": "Ann", "age": 30}, {"name": p(), "age": 0}], title=p(),
                mixed=[{"name": "alpha"}, {"name": None}, {"name": p()}, {}, {"name": ""}, {"name": "last"}])


def has_structure(ast):
    for n in ast:
        if n[0] == "elem":
            for k in ("content", "replace"):
                if n[3].get(k, "").startswith("structure "):
                    return True
            if has_structure(n[4]):
                return True
    return False


def global_define_names(ast, acc=None):
    acc = set() if acc is None else acc
    for n in ast:
        if n[0] == "elem":
            if "define" in n[3]:
                for isl, name, ex in talgen.parse_define(n[3]["define"]):
                    if not isl:
                        acc.add(name)
            global_define_names(n[4], acc)
    return acc


def map_exprs(ast, f):
    out = []
    for n in ast:
        if n[0] == "elem":
            out.append(("elem", n[1], n[2], {k: f(v) for k, v in n[3].items()}, map_exprs(n[4], f)))
        else:
            out.append(n)
    return out


# ---------------------------------------------------------------------------
# document grammar + independent reader

VOID = {"br", "img", "input", "hr", "meta", "link"}
RAWTEXT = {"script", "style"}
NORMAL = ["div", "p", "span", "b", "i", "a", "ul", "li", "table", "tr", "td", "h1", "pre", "em", "textarea", "title", "form", "label"]
TEXTS = ["word", "two words", " ", "\n  ", "a &amp; b", "1 &lt; 2", "x &gt; y", "say &quot;hi&quot;", "it's", 'q"uote', "&#65;&#x42;", "&nbsp;", "&copy; 2024", "caf\xe9",
         "a & b", "&bogus; ref", "100%", "tal:content is not an attribute here", "${x} $y", "a=b;c"]
ATTRS = [("class", "c1"), ("id", "main"), ("href", "/a?b=1&amp;c=2"), ("title", "a &lt; b"), ("title", "it's"), ("alt", 'say "hi"'), ("data-x", ""), ("style", "a:b;c:d"),
         ("href", "x.html#f"), ("value", "&amp;amp;"), ("title", "a > b"), ("name", "n1")]
RAWS = ['if (a<b && c) x("&amp;");', "a>b{}", "var s = '</' + 'p>';", "/* <b> */", ""]


def gen_attr(rnd):
    k, v = rnd.choice(ATTRS)
    style = rnd.random()
    if style < 0.6:
        return ' %s="%s"' % (k, v.replace('"', "&quot;"))
    if style < 0.8:
        return " %s='%s'" % (k, v.replace("'", "&#39;"))
    if style < 0.9 and v and not re.search(r"[\s\"'=<>`&]", v):
        return " %s=%s" % (k, v)
    if style < 0.95:
        return " " + rnd.choice(["disabled", "checked", "hidden"])
    return ' %s="%s"' % (k.upper(), v.replace('"', "&quot;"))


def gen_doc(rnd, depth=0):
    r = rnd.random()
    if depth > 3 or r < 0.3:
        return rnd.choice(TEXTS)
    if r < 0.36:
        return "<!-- %s -->" % rnd.choice(["note", "a <b> c", "x -- y"[:1], "tal:content"])
    if r < 0.44:
        t = rnd.choice(sorted(VOID))
        names = set()
        a = ""
        for _ in range(rnd.randint(0, 2)):
            x = gen_attr(rnd)
            nm = x.split("=")[0].strip().lower()
            if nm not in names:
                names.add(nm)
                a += x
        return "<%s%s%s>" % (t, a, rnd.choice(["", "", " /", "/"]) if not a.rstrip().endswith(tuple("abcdefghijklmnopqrstuvwxyz0123456789")) or True else "")
    if r < 0.5:
        t = rnd.choice(sorted(RAWTEXT))
        # often followed directly by text with character references (no start tag in between): that text is ordinary
        # text again, the raw-text mode ended with the end tag
        tail = rnd.choice(["", "", "Write &lt;em&gt;this&lt;/em&gt; &amp; that", "1 &lt; 2", "&lt;img src=x onerror=y&gt;", " x &gt; y ", "</%s>after" % "b"])
        if tail.startswith("</"):
            tail = ""
        return "<%s>%s</%s>%s" % (t, rnd.choice(RAWS), t, tail)
    t = rnd.choice(NORMAL)
    names = set()
    a = ""
    for _ in range(rnd.randint(0, 3)):
        x = gen_attr(rnd)
        nm = x.split("=")[0].strip().lower()
        if nm not in names:
            names.add(nm)
            a += x
    tag = t.upper() if rnd.random() < 0.05 else t
    kids = "".join(gen_doc(rnd, depth + 1) for _ in range(rnd.randint(0, 3)))
    if t in ("textarea", "title"):
        kids = rnd.choice(TEXTS[:9])
    return "<%s%s>%s</%s>" % (tag, a, kids, tag)


class Reader(html.parser.HTMLParser):
    """Independent reading of a document: elements, attributes (unescaped), text (unescaped, merged)."""

    def __init__(self):
        super().__init__(convert_charrefs=True)
        self.ev = []

    def _text(self, d):
        if self.ev and self.ev[-1][0] == "text":
            self.ev[-1] = ("text", self.ev[-1][1] + d)
        else:
            self.ev.append(("text", d))

    def handle_starttag(self, tag, attrs):
        self.ev.append(("start", tag, tuple((k, k if v is None else v) for k, v in attrs)))

    def handle_endtag(self, tag):
        if tag not in VOID:
            self.ev.append(("end", tag))

    def handle_startendtag(self, tag, attrs):
        self.handle_starttag(tag, attrs)
        if tag not in VOID:
            self.ev.append(("end", tag))

    def handle_data(self, d):
        self._text(d)

    def handle_comment(self, d):
        self.ev.append(("comment", d))

    def handle_decl(self, d):
        self.ev.append(("decl", d))

    def handle_pi(self, d):
        self.ev.append(("pi", d))


def read_doc(text):
    r = Reader()
    r.feed(text)
    r.close()
    return r.ev


def expand_plain(text):
    t = simpleTAL.compileHTMLTemplate(text)
    o = talgen.Sink()
    with talgen.time_limit():
        t.expand(simpleTALES.Context(), o)
    return o.getvalue()


# ---------------------------------------------------------------------------

def run(ctx):
    res = Result()
    res.rule = ("seeded TAL templates (C17 grammar) over contexts whose every string value is a markup canary; python: side-effect canaries in all command "
                "positions and nestings, gate off/on, directly and through the TALFileHandler switch; TAL-free documents from a document grammar "
                "(nesting <= 4, void / raw-text / RCDATA elements, 4 attribute quoting styles, entities, comments, doctype); context snapshots. "
                "non-trivial = templates that substitute at least one canary, python templates whose expression is reached, documents with markup, distinct by text")
    res.assumptions = ["html.parser is the independent HTML reader for 'equivalent document' (boolean attributes name == name=\"name\"; void elements have no end tag)",
                       "documents from the grammar are well nested; CDATA sections and self-closed non-void elements are outside it",
                       "python: values are outside the model; the gate-off theorem needs none (independence of the oracle)"]
    rnd = ctx.rng
    lines, cases = [], []
    _iterator_contexts(res)
    _nested_programs(res)
    # ---- (1) escaping canaries + (4) context snapshots -------------------------------------------------
    n = ctx.n(600, 10000)
    for i in range(n):
        ast = talgen.FIXED[i] if i < len(talgen.FIXED) else [talgen.gen(rnd) for _ in range(rnd.randint(1, 3))]
        tpl = "".join(talgen.ser(x) for x in ast)
        g = hostile_ctx(rnd)
        before = copy.deepcopy(g)
        try:
            t, _prog = talgen.real_compile(tpl)
            rctx = simpleTALES.Context(allowPythonPath=0)
            for k, v in g.items():
                rctx.addGlobal(k, v)
            # two caller shapes: a context that already holds a local variable, and one populated with globals only
            # (how pygopherd's TALFileHandler builds its context: the locals are empty when the first scope opens)
            if i % 2 == 0:
                rctx.pushLocals()
                rctx.setLocal("preset", "local-before")
                res.count("caller:preset-local")
            else:
                res.count("caller:globals-only")
            pre = _snapshot(rctx)
            o = talgen.Sink()
            with talgen.time_limit():
                t.expand(rctx, o)
            rout = o.getvalue()
            post = _snapshot(rctx)
        except KeyError:
            res.count("out-of-domain:repeat-over-mapping")
            continue
        except Exception as e:  # noqa
            res.violation("C18:real-raises:" + type(e).__name__, "expanding a well-formed template raised", {"template": tpl}, observed=repr(e), required="an expansion",
                          replay={"kind": "tal", "template": tpl, "globals": repr(g)})
            continue
        res.evaluations += 1
        structure = has_structure(ast)
        res.count("template:with-structure" if structure else "template:no-structure")
        substituted = any(("K%d" % k) in rout for k in range(1, 8))
        if substituted:
            res.nontrivial.add(tpl)
        if not structure:
            bad = None
            for ev in read_doc(rout):
                if ev[0] == "start" and (re.match(r"k\d", ev[1]) or ev[1] == "script" or any(k in ("x", "onmouseover") or re.match(r"k\d", k) for k, _v in ev[2])):
                    bad = ev
                elif ev[0] == "comment":
                    bad = ev
                if bad:
                    break
            if bad:
                res.violation("C18:raw-data-in-output", "context data became markup although the template never says `structure`",
                              {"template": tpl, "context": g}, observed={"markup_from_data": str(bad)[:200], "output": rout[:400]},
                              required="data only as text and attribute values", replay={"kind": "tal", "template": tpl, "globals": repr(g)})
        try:
            oout, _oc = talgen.oracle_expand(ast, g, False)
        except Exception as e:  # noqa
            oout = "ORACLE-EXC " + repr(e)
        # the preset local is visible to the real run only through paths named `preset` (none in the grammar)
        if oout != rout:
            res.violation("C18:escaping-differs", "expansion differs from the independent evaluator (escaping of text / attributes / structure)",
                          {"template": tpl, "context": g}, observed=rout[:400], required=oout[:400], replay={"kind": "tal", "template": tpl, "globals": repr(g)})
        # (4) context: exactly what it held before, apart from explicit global defines
        gd = global_define_names(ast)
        for part in ("locals", "localStack", "repeatMap", "repeatStack", "attrs", "repeat_names"):
            if pre[part] != post[part]:
                res.violation("C18:context-leftover:" + part, "the caller's context is not restored after expansion", {"template": tpl},
                              observed={part: post[part]}, required={part: pre[part]}, replay={"kind": "tal", "template": tpl, "globals": repr(g)})
        changed = {k for k in set(pre["globals"]) | set(post["globals"]) if pre["globals"].get(k, "<absent>") != post["globals"].get(k, "<absent>")}
        if not changed <= gd:
            res.violation("C18:context-leftover:globals", "globals changed without a global define", {"template": tpl, "global_defines": sorted(gd)},
                          observed=sorted(changed - gd), required="only " + repr(sorted(gd)), replay={"kind": "tal", "template": tpl, "globals": repr(g)})
        if g != before:
            res.violation("C18:context-values-mutated", "the expansion mutated a context value", {"template": tpl}, observed=repr(g)[:300], required=repr(before)[:300],
                          replay={"kind": "tal", "template": tpl, "globals": repr(before)})
        if gd:
            res.count("context:with-global-define")
        lines.append("\t".join(["talexpand", "F", talgen.enc_val(before), talgen.enc_nodes(talgen.nf(ast))]))
        cases.append(("expand", tpl, rout))
    # html.escape itself
    for s in [p.replace("%d", "9") for p in PAYLOADS] + ["", "&", "&amp;", "<>\"'", " \xe9<", "a&b<c>d\"e'f"]:
        for q in (False, True):
            lines.append("htmlescape\t%s\t%s" % ("T" if q else "F", enc_str(s)))
            cases.append(("escape", (s, q), html.escape(s, quote=q)))
    # ---- (2) python: gate ------------------------------------------------------------------------------
    _python_gate(res, rnd, ctx, lines, cases)
    _handler_gate(res)
    # ---- (3) TAL-free documents ------------------------------------------------------------------------
    nd = ctx.n(500, 8000)
    for i in range(nd):
        doc = "".join(gen_doc(rnd) for _ in range(rnd.randint(1, 3)))
        if rnd.random() < 0.15:
            doc = "<!DOCTYPE html>" + doc
        res.evaluations += 1
        try:
            d1 = expand_plain(doc)
            d2 = expand_plain(d1)
        except Exception as e:  # noqa
            res.violation("C18:passthrough-raises:" + type(e).__name__, "expanding a TAL-free document raised", {"document": doc}, observed=repr(e), required="the document",
                          replay={"kind": "doc", "document": doc})
            continue
        if "<" in doc:
            res.nontrivial.add(doc)
        kinds = ("raw-text" if re.search(r"<(script|style)", doc) else None, "void" if re.search(r"<(br|img|input|hr|meta|link)", doc) else None,
                 "entity" if "&" in doc else None, "comment" if "<!--" in doc else None)
        for k in kinds:
            if k:
                res.count("doc:" + k)
        e0, e1 = read_doc(doc), read_doc(d1)
        if e0 != e1:
            d = next((j for j, (a, b) in enumerate(zip(e0, e1)) if a != b), min(len(e0), len(e1)))
            res.violation("C18:passthrough-not-equivalent", "a TAL-free document does not expand to an equivalent document", {"document": doc},
                          observed={"expansion": d1[:400], "first_difference": str(e1[d:d + 1])[:200]}, required=str(e0[d:d + 1])[:200],
                          replay={"kind": "doc", "document": doc})
        if d2 != d1:
            res.violation("C18:passthrough-not-idempotent", "a second expansion changes the document", {"document": doc}, observed=d2[:400], required=d1[:400],
                          replay={"kind": "doc", "document": doc})
    # canonical TAL-free trees: the model's pass-through (talfree_passthrough) vs the real expansion
    for i in range(ctx.n(80, 1000)):
        ast = map_tal_free([talgen.gen(rnd) for _ in range(rnd.randint(1, 3))])
        tpl = "".join(talgen.ser(x) for x in ast)
        try:
            rout = expand_plain(tpl)
        except Exception as e:  # noqa
            res.disagree("C18.passthrough", {"template": tpl}, "an expansion", repr(e))
            continue
        lines.append("\t".join(["talexpand", "F", talgen.enc_val({}), talgen.enc_nodes(talgen.nf(ast))]))
        cases.append(("expand", tpl, rout))
    # ---- model ----------------------------------------------------------------------------------------
    outs = ctx.driver.run(lines)
    for (kind, inp, impl), o in zip(cases, outs):
        res.evaluations += 1
        if kind == "escape":
            if dec_str(o) != impl:
                res.disagree("C18.htmlescape", {"s": inp[0], "quote": inp[1]}, dec_str(o), impl)
            continue
        f = o.split("\t")
        if f[0] == "MACHINE-STUCK":
            res.disagree("C18.expand", {"template": inp}, "machine stuck", impl[:200])
            continue
        mout, dout = dec_str(f[0]), dec_str(f[7])
        if mout != impl:
            res.disagree("C18.expand-machine", {"template": inp}, mout[:400], impl[:400])
        if dout != impl:
            res.disagree("C18.expand-denote", {"template": inp}, dout[:400], impl[:400])
        if kind == "expand" and (int(f[3]), int(f[4]), int(f[5])) != (0, 0, 0):
            res.disagree("C18.context", {"template": inp}, f[3:6], "0 0 0")
    if cases:
        res.sample({"template": cases[0][1] if isinstance(cases[0][1], str) else str(cases[0][1]), "expansion": str(cases[0][2])[:300]})
    return res


def map_tal_free(ast):
    out = []
    for n in ast:
        if n[0] == "elem":
            out.append(("elem", n[1], n[2], {}, map_tal_free(n[4])))
        else:
            out.append(n)
    return out


def _iterator_contexts(res):
    """tal:repeat over values without a length (iterators, generators, filter objects): whatever they yield -- nothing at all
    included -- the caller's context is as it was after the expansion, and the output is that of the list of the same items."""
    shapes = ['<ul><li tal:repeat="x %s" tal:content="x">i</li></ul><p tal:content="s">after</p>',
              '<div tal:repeat="y lst"><b tal:repeat="x %s" tal:content="x">i</b><i tal:content="y">y</i></div>',
              '<div tal:define="v n"><span tal:repeat="x %s"><em tal:content="repeat/x/number">n</em></span><u tal:content="v">v</u></div>']
    makers = [("empty iterator", lambda: iter(()), []), ("exhausted generator", lambda: (c for c in ""), []), ("empty filter", lambda: filter(None, [0, "", None]), []),
              ("iterator of three", lambda: iter(["a", "b", "c"]), ["a", "b", "c"]), ("generator of one", lambda: (c for c in "z"), ["z"])]
    for shape in shapes:
        for label, mk, items in makers:
            tpl = shape % "it"
            outs = {}
            for which in ("iterator", "list"):
                g = talgen.ctxvals()
                g["it"] = mk() if which == "iterator" else list(items)
                try:
                    t, _p = talgen.real_compile(tpl)
                    c = simpleTALES.Context(allowPythonPath=0)
                    for k, v in g.items():
                        c.addGlobal(k, v)
                    pre = _snapshot_noiter(c)
                    o = talgen.Sink()
                    with talgen.time_limit():
                        t.expand(c, o)
                    post = _snapshot_noiter(c)
                    outs[which] = o.getvalue()
                except Exception as e:  # noqa
                    res.violation("C18:real-raises:" + type(e).__name__, "expanding a template that repeats over a value without a length raised",
                                  {"template": tpl, "value": label}, observed=repr(e), required="an expansion", replay={"kind": "iterator", "template": tpl, "value": label})
                    outs[which] = None
                    continue
                res.evaluations += 1
                res.nontrivial.add(("iterator", shape, label, which))
                if post != pre:
                    part = next(k for k in pre if pre[k] != post[k])
                    res.violation("C18:context-leftover:" + part, "the caller's context is not restored after a repeat over a value without a length",
                                  {"template": tpl, "value": label if which == "iterator" else "list " + repr(items)}, observed={part: post[part]}, required={part: pre[part]},
                                  replay={"kind": "iterator", "template": tpl, "value": label})
            # (inside an outer loop an iterator is used up by the first pass: only where it is walked once is it its list)
            if 'tal:repeat="y lst"' not in shape and outs.get("iterator") is not None and outs.get("list") is not None and outs["iterator"] != outs["list"]:
                res.violation("C18:iterator-differs-from-list", "a repeat over an iterator gives another document than a repeat over the list of its items",
                              {"template": tpl, "value": label}, observed=outs["iterator"][:300], required=outs["list"][:300], replay={"kind": "iterator", "template": tpl, "value": label})


def _nested_programs(res):
    """Templates that run another compiled program on the same interpreter (a macro use, a `structure` include of a compiled
    template): afterwards the caller's context is as it was (the built-in `attrs` too), and a value that is *data* where a macro
    was expected never reaches the output as markup."""
    lib_src = '<div metal:define-macro="box" class="box"><span metal:define-slot="body">default</span></div><p metal:define-macro="row" id="r">row</p>'
    part_src = '<em class="part" tal:content="s">part</em>'
    pages = ['<p id="use" metal:use-macro="lib/macros/box"><b metal:fill-slot="body" tal:content="s">f</b></p><i tal:content="n">n</i>',
             '<div id="inc" class="c" tal:content="structure part">x</div><p tal:define="v s" tal:content="v">v</p>',
             '<ul><li tal:repeat="x lst" class="li"><span metal:use-macro="lib/macros/row">r</span><u tal:replace="structure part">p</u></li></ul>',
             # a macro expression that denotes data, not a macro
             '<span id="m" metal:use-macro="s">fallback</span>', '<ul><li tal:repeat="x lst"><span metal:use-macro="x">item</span></li></ul>',
             '<span metal:use-macro="lib/macros/nosuch | s">fallback</span>']
    payload = '<img src=x onerror=alert(1)>&"\''
    for page in pages:
        try:
            lib, _ = talgen.real_compile(lib_src)
            part, _ = talgen.real_compile(part_src)
            t, _p = talgen.real_compile(page)
            c = simpleTALES.Context(allowPythonPath=0)
            g = talgen.ctxvals()
            g["s"] = payload
            g["lst"] = ["a", payload, "c"]
            for k, v in g.items():
                c.addGlobal(k, v)
            c.addGlobal("lib", lib)
            c.addGlobal("part", part)
            pre = _snapshot(c)
            o = talgen.Sink()
            with talgen.time_limit():
                t.expand(c, o)
            post = _snapshot(c)
            for snap_ in (pre, post):
                for k_ in ("lib", "part"):          # (compiled templates have no equality of their own)
                    snap_["globals"].pop(k_, None)
            out = o.getvalue()
        except Exception as e:  # noqa
            res.count("nested-program-raises:" + type(e).__name__)
            continue
        res.evaluations += 1
        res.nontrivial.add(("nested-program", page))
        if post != pre:
            part_ = next(k for k in pre if pre[k] != post[k])
            res.violation("C18:context-leftover:" + part_, "the caller's context is not restored after a template that ran a nested program (macro use / structure include)",
                          {"template": page}, observed={part_: repr(post[part_])[:200]}, required={part_: repr(pre[part_])[:200]}, replay={"kind": "nested", "template": page})
        if "<img" in out or "onerror=alert(1)>" in out:
            res.violation("C18:data-became-markup:nested", "context data reached the output as markup through a macro expression", {"template": page},
                          observed=out[:300], required="escaped text or nothing", replay={"kind": "nested", "template": page})


def _snapshot_noiter(c):
    return {"locals": repr(sorted(c.locals.items())), "localStack": len(c.localStack),
            "globals": sorted(k for k in c.globals if k not in talgen.BUILTIN_GLOBALS), "repeat_global": repr(sorted(c.globals.get("repeat", {}).keys())) if hasattr(c.globals.get("repeat", {}), "keys") else "?",
            "repeatMap": sorted(c.repeatMap.keys()) if hasattr(c.repeatMap, "keys") else repr(c.repeatMap), "repeatStack": len(c.repeatStack)}


def _snapshot(c):
    return {"locals": copy.deepcopy(dict(c.locals)), "localStack": copy.deepcopy(list(c.localStack)),
            # the built-in names too: `attrs` (the current element's attributes while a command runs) and `repeat`
            "attrs": copy.deepcopy(c.globals.get("attrs")), "repeat_names": sorted(c.globals.get("repeat", {}).keys()) if hasattr(c.globals.get("repeat", {}), "keys") else None,
            "globals": {k: copy.deepcopy(v) for k, v in c.globals.items() if k not in talgen.BUILTIN_GLOBALS and not callable(v)},
            "repeatMap": sorted(c.repeatMap.keys()) if hasattr(c.repeatMap, "keys") else repr(c.repeatMap), "repeatStack": len(c.repeatStack)}


PY_FORMS = ['<p tal:content="%s">x</p>', '<p tal:replace="%s">x</p>', '<p tal:condition="%s">x</p>', '<p tal:repeat="i %s">x</p>', '<p tal:attributes="title %s">x</p>',
            '<p tal:omit-tag="%s">x</p>', '<p tal:define="v %s" tal:content="v">x</p>', '<p tal:define="global gv %s">x</p>', '<p tal:content="structure %s">x</p>',
            '<ul><li tal:repeat="i lst"><b tal:content="%s">x</b></li></ul>']
PY_WRAPS = ["%s", "missing | %s", "not:%s", "string:a ${%s} b", "nocall:missing | %s", "missing | nothing/x | %s", "exists:missing | %s", "not:not:%s", "path:missing | %s"]


def _python_gate(res, rnd, ctx, lines, cases):
    templates = []
    for form in PY_FORMS:
        for wrap in PY_WRAPS:
            templates.append((form % html.escape(wrap % "python:hit('PYTHON-ORACLE')"), None))
    # generated templates where the grammar's python: expression carries the canary
    for i in range(ctx.n(150, 2500)):
        ast = [talgen.gen(rnd) for _ in range(rnd.randint(1, 3))]
        ast2 = map_exprs(ast, lambda v: v.replace("python: 'PYTHON-ORACLE'", "python: hit('PYTHON-ORACLE')"))
        tpl = "".join(talgen.ser(x) for x in ast2)
        if "python:" in tpl:
            templates.append((tpl, ast2))
    reached = 0
    for tpl, ast in templates:
        outs = {}
        for allow in (0, 1):
            hits = []

            def hit(x, hits=hits):
                hits.append(x)
                return x
            c = simpleTALES.Context(allowPythonPath=allow)
            g = talgen.ctxvals()
            for k, v in g.items():
                c.addGlobal(k, v)
            c.addGlobal("hit", hit)
            try:
                t = simpleTAL.compileHTMLTemplate(tpl)
                o = talgen.Sink()
                with talgen.time_limit():
                    t.expand(c, o)
                outs[allow] = (o.getvalue(), list(hits))
            except KeyError:
                outs[allow] = None
            except Exception as e:  # noqa
                outs[allow] = ("EXC " + repr(e), list(hits))
        if outs[0] is None:
            continue
        res.evaluations += 1
        out0, hits0 = outs[0]
        if hits0:
            res.violation("C18:python-evaluated-while-disabled", "a python: expression was evaluated with allowPythonPath off", {"template": tpl},
                          observed={"side_effects": hits0, "output": out0[:200]}, required="no evaluation", replay={"kind": "python", "template": tpl})
        if "PYTHON-ORACLE" in out0:
            res.violation("C18:python-value-while-disabled", "the value of a python: expression reached the document with allowPythonPath off", {"template": tpl},
                          observed=out0[:300], required="the expression counts as false", replay={"kind": "python", "template": tpl})
        if outs[1] and outs[1][1]:
            reached += 1
            res.nontrivial.add(tpl)
        if ast is not None:
            lines.append("\t".join(["talexpand", "F", talgen.enc_val(talgen.ctxvals()), talgen.enc_nodes(talgen.nf(ast))]))
            cases.append(("expand-py", tpl, out0))
    res.extra["python_templates"] = len(templates)
    res.extra["python_templates_reached_when_enabled"] = reached


def _handler_gate(res):
    """The configuration switch of pygopherd's TAL handler."""
    # every spelling ConfigParser.getboolean() reads as false / true
    for setting, expect_file in ([(x, False) for x in ("false", "False", "FALSE", "no", "No", "NO", "off", "Off", "OFF", "0")] +
                                 [(x, True) for x in ("true", "True", "YES", "on", "1")] + [(None, True)]):
        tree = pyg.Tree()
        try:
            canary = os.path.join(tree.tmp, "python-canary")
            tree.write("page.html.tal", ('<html><body><p tal:content="python:open(%r, \'w\').write(\'x\')">x</p>'
                                         '<b tal:condition="missing | python:open(%r, \'a\').write(\'y\')">y</b></body></html>\n' % (canary, canary)).encode())
            kw = {}
            if setting is not None:
                kw["handlers.tal.TALFileHandler|allowpythonpath"] = setting
            cfg = pyg.make_config(tree.root, pyg.FULL_HANDLERS, **kw)
            r = pyg.request(b"/page.html.tal\r\n", cfg)
            res.evaluations += 1
            exists = os.path.exists(canary)
            if expect_file is False and exists:
                res.violation("C18:handler-python-evaluated-while-disabled", "TALFileHandler evaluated python: with allowpythonpath = false",
                              {"config": "allowpythonpath = " + setting}, observed=r.out[:200].decode("latin-1"), required="no side effect",
                              replay={"kind": "handler", "setting": setting})
            if expect_file:
                res.count("handler-python-enabled:" + ("evaluated" if exists else "NOT-evaluated"))
                if exists:
                    res.nontrivial.add("handler:" + str(setting))
            if r.handler != "TALFileHandler":
                res.count("handler-gate:wrong-handler:" + str(r.handler))
        finally:
            tree.close()
            pyg.reset_globals()


def replay(data):
    rp = data["violation"]["replay"]
    if rp["kind"] == "doc":
        d1 = expand_plain(rp["document"])
        print("document :", repr(rp["document"]))
        print("expansion:", repr(d1))
        print("second   :", repr(expand_plain(d1)))
        print("equivalent:", read_doc(rp["document"]) == read_doc(d1))
    elif rp["kind"] == "python":
        hits = []
        c = simpleTALES.Context(allowPythonPath=0)
        for k, v in talgen.ctxvals().items():
            c.addGlobal(k, v)
        c.addGlobal("hit", lambda x: (hits.append(x), x)[1])
        o = io.StringIO()
        simpleTAL.compileHTMLTemplate(rp["template"]).expand(c, o)
        print("template:", rp["template"])
        print("output:", o.getvalue(), "side effects:", hits)
    elif rp["kind"] == "tal":
        g = eval(rp["globals"], {"__builtins__": {}})  # a literal written by this module
        t, _ = talgen.real_compile(rp["template"])
        print("template:", rp["template"])
        print("expansion:", talgen.real_expand(t, g, False))
    else:
        print(rp)
    return 0
