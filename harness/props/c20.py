"""C20 — a failing client connection is contained in its own handler.

A writer that fails at write k (once, or from k on) with BrokenPipeError / ConnectionResetError
/ socket.timeout('timed out'), for every response kind x protocol x every k.  Projection
compared with Model/Fail.flow: (exception leaving GopherRequestHandler.handle, ordered log
classes, number of write calls attempted, descriptors before/after).  Oracle: nothing leaves
handle; every EXCEPTION log line carries the injected class (FileNotFound lines that preceded
are the request's own) and the client's address; no descriptor leaks.
"""
import errno
import gc
import os
import socket

import pyg
import reqs
import trees
from main import Result

CLASSES = [("BrokenPipeError", lambda: BrokenPipeError(errno.EPIPE, "Broken pipe"), 32),
           ("ConnectionResetError", lambda: ConnectionResetError(errno.ECONNRESET, "Connection reset by peer"), 104),
           ("TimeoutError", lambda: socket.timeout("timed out"), 110)]


class FailingWriter:
    def __init__(self, mode, k, make):
        self.mode, self.k, self.make = mode, k, make
        self.calls = 0
        self.buf = bytearray()

    def write(self, b):
        i = self.calls
        self.calls += 1
        if (self.mode == "at" and i == self.k) or (self.mode == "from" and i >= self.k):
            raise self.make()      # a fresh exception each time (a reused one keeps frames alive)
        self.buf += b
        return len(b)

    def flush(self):
        pass

    def getvalue(self):
        return bytes(self.buf)


def _children():
    """pids of live (non-zombie) children of this process"""
    out = []
    try:
        for t in os.listdir("/proc/self/task"):
            for pid_ in open(f"/proc/self/task/{t}/children").read().split():
                try:
                    st_ = open(f"/proc/{pid_}/stat").read().rsplit(")", 1)[1].split()[0]
                except OSError:
                    continue
                if st_ != "Z":
                    out.append(pid_)
    except OSError:
        pass
    return out


def nfds():
    return len(os.listdir("/proc/self/fd"))


FRAME = {"gopher": "inside", "sgopher": "inside", "gopherp": "inside", "sgopherp": "inside", "http": "inside", "https": "inside",
         "wap": "inside", "gemini": "outside", "spartan": "outside"}


def run(ctx):
    res = Result()
    res.rule = ("every write index k (0..K, K = writes of the fault-free response) x {fails once at k, fails from k on} x "
                "{EPIPE, ECONNRESET, timeout} x 9 protocol syntaxes x response kinds (document, UMN menu, gophermap menu, error page, Gopher+ "
                "info, mailbox folder and message; ZIP member with the full list). non-trivial = injected faults that hit an existing write "
                "(k < K), distinct by (protocol, kind, k, mode, class)")
    res.assumptions = ["descriptor closing at garbage-collection time is forced with gc.collect() before counting",
                       "real socket errors (RST, EPIPE from the kernel, SO_SNDTIMEO) are represented by exceptions raised from write()"]
    rng = ctx.rng
    tree = pyg.Tree()
    model_lines, checks = [], []
    try:
        trees.standard(tree, hostile_content=False)
        trees.add_full_list_content(tree)
        os.chmod(tree.path("hello.pyg"), 0o644)
        import gzip
        tree.write("big.txt.gz", gzip.compress((b"a line of a large compressed document 0123456789\n" * 22000), mtime=0))      # ~1 MB decompressed
        cfgs = {"shipped": pyg.make_config(tree.root, **{"handlers.dir.DirHandler|cachetime": "0"}),
                "fullz": pyg.make_config(tree.root, pyg.FULL_HANDLERS, **{"handlers.dir.DirHandler|cachetime": "0", "handlers.ZIP.ZIPHandler|enabled": "true",
                                                                          "handlers.file.CompressedFileHandler|decompressors": "{'gzip': 'zcat'}"}),
                "full": pyg.make_config(tree.root, pyg.FULL_HANDLERS, **{"handlers.dir.DirHandler|cachetime": "0", "handlers.ZIP.ZIPHandler|enabled": "true"})}
        kinds = [("document", "/README", "shipped", True), ("bigdoc", "/data.bin", "shipped", True), ("menu", "/docs", "shipped", False),
                 ("gophermap", "/map", "shipped", True), ("notfound", "/no-such-thing", "shipped", False), ("mboxfolder", "/mail/box.mbox", "shipped", False),
                 ("mboxmsg", "/mail/box.mbox|/MBOX-MESSAGE/1", "shipped", False), ("html", "/page.html", "shipped", True),
                 ("zipmember", "/arch.zip/inside.txt", "full", False), ("zipdir", "/arch.zip/zd", "full", False),
                 ("gzdoc", "/big.txt.gz", "fullz", True)]
        protos = ["gopher", "gopherp", "http", "wap", "gemini", "spartan", "sgopher", "https", "sgopherp"]
        for kind, sel, cname, with_file in kinds:
            cfg = cfgs[cname]
            for p in protos:
                gps = ["+"] if p not in ("gopherp", "sgopherp") else ["+", "!", "$"]
                for gp in gps:
                    rq = reqs.build(p, sel, gplus=gp)
                    # fault-free run: how many writes?
                    w0 = FailingWriter("never", 0, None)
                    r0 = pyg.request(rq, cfg, tls=reqs.TLS[p], wfile=w0)
                    K = w0.calls
                    # error-page writes of this protocol (measured on a not-found request)
                    we = FailingWriter("never", 0, None)
                    pyg.request(reqs.build(p, "/no-such-thing-at-all", gplus=gp), cfg, tls=reqs.TLS[p], wfile=we)
                    err_writes = we.calls
                    ks = list(range(K + 1))
                    if K > 12 and not (ctx.thorough or ctx.deepen):
                        ks = sorted(set([0, 1, 2, K - 1, K] + rng.sample(range(K), 5)))
                    elif K > 48:
                        # (a large document is hundreds of writes, each position six failure classes and two modes: the first and
                        #  last positions completely, the middle by seeded sample -- the run must end)
                        ks = sorted(set(list(range(12)) + list(range(K - 4, K + 1)) + rng.sample(range(K), 24)))
                    for k in ks:
                        for mode in ("at", "from"):
                            cname_, make, cid = CLASSES[rng.randrange(len(CLASSES))] if not (ctx.thorough or ctx.deepen) else (None, None, None)
                            for (cn, mk, ci) in ([(cname_, make, cid)] if cname_ else CLASSES):
                                gc.collect()
                                f0 = nfds()
                                w = FailingWriter(mode, k, mk)
                                r = pyg.request(rq, cfg, tls=reqs.TLS[p], wfile=w)
                                del r0
                                r0 = None
                                gc.collect()
                                f1 = nfds()
                                res.evaluations += 1
                                inp = {"kind": kind, "selector": sel, "protocol": p, "gplus": gp, "fail": mode, "k": k, "class": cn, "writes_total": K}
                                rp = {"selector": sel, "protocol": p, "gplus": gp, "fail": mode, "k": k, "class": cn, "handlers": cname}
                                if k < K:
                                    res.nontrivial.add((p, gp, kind, k, mode, cn))
                                logs = r.exceptions()
                                own = [c for c in logs if c != "FileNotFound"]
                                if r.exc is not None:
                                    res.violation("C20:escaped:" + type(r.exc).__name__, "a connection failure propagates out of the connection handler", inp,
                                                  observed=repr(r.exc), required="contained", replay=rp)
                                bad = [c for c in own if c != cn]
                                if bad:
                                    res.violation("C20:wrong-class:" + bad[0], "a connection failure is logged as some other error", inp, observed=logs,
                                                  required=cn, replay=rp)
                                if k < K and cn not in own:
                                    res.violation("C20:not-logged", "a connection failure is not logged under its own class", inp, observed=r.log[-3:], required=cn, replay=rp)
                                for ln in r.log:
                                    if "EXCEPTION " + cn in ln and not ln.startswith("10.77.77.77 "):
                                        res.violation("C20:no-address", "failure logged without the client's address", inp, observed=ln[:80], required="10.77.77.77 ...", replay=rp)
                                kids_left = _children()
                                if kids_left:
                                    res.violation("C20:child-left", "a process started for the request is still running after the connection failed", inp,
                                                  observed=kids_left, required="none", replay=rp)
                                    for pid_ in kids_left:
                                        try:
                                            os.kill(int(pid_), 9)
                                        except (OSError, ValueError):
                                            pass
                                if f1 > f0:
                                    res.violation("C20:fd-leak", "a file opened for the request is not closed after the connection failed", inp,
                                                  observed={"before": f0, "after": f1}, required="equal", replay=rp)
                                # model: frame by protocol; the not-found kind has no body phase inside the try for inside-frames:
                                # its writes ARE the error page, so it is modelled as outsideTry with n = K
                                frame = FRAME[p]
                                if kind == "notfound":
                                    frame = "outside"
                                model_lines.append("\t".join(["failflow", frame, str(err_writes), "T" if with_file else "F", str(K), mode, str(k), str(ci)]))
                                checks.append((inp, ("-" if r.exc is None else type(r.exc).__name__, [ci for c in own], w.calls)))
        real_socket_failures(ctx, res, tree, cfgs)
        outs = ctx.driver.run(model_lines)
        for (inp, impl), o in zip(checks, outs):
            res.evaluations += 1
            f = o.split("\t")
            model = (f[0], [int(x) for x in f[1].split()] if f[1] else [], int(f[4]))
            if model != impl:
                res.disagree("C20.flow", inp, model, impl)
        res.sample({"kind": "document", "protocol": "http", "fail": "from", "k": 2, "class": "BrokenPipeError"})
        if checks:
            res.sample({"case": checks[len(checks) // 2][0], "observed(escaped, logs, write_calls)": checks[len(checks) // 2][1]})
    finally:
        tree.close()
    res.degraded = list(pyg.degraded)
    return res


def real_socket_failures(ctx, res, tree, cfgs):
    """The real request handler class on a real socket whose peer has gone away (closed, or closed after reading a little):
    GopherRequestHandler(sock, addr, server) runs setup / handle / finish as socketserver does; whatever leaves that
    constructor would reach the accept loop's handle_error.  Buffering, flush and close of the socket files are part of it."""
    from pygopherd.server import GopherRequestHandler
    pyg.init_once()
    kinds = [("document", "/README"), ("bigdoc", "/data.bin"), ("menu", "/docs"), ("gophermap", "/map"), ("notfound", "/nope"), ("mboxfolder", "/mail/box.mbox")]
    for kind, sel in kinds:
        for p in ("gopher", "gopherp", "http", "wap", "spartan"):
            for peer in ("closed-before", "closed-after-request", "reads-8-bytes"):
                rq = reqs.build(p, sel, gplus="$" if kind in ("menu", "gophermap", "mboxfolder") else "+")
                a, b = socket.socketpair()
                a.settimeout(5)
                b.settimeout(5)
                del pyg._log_lines[:]
                escaped = None
                try:
                    a.sendall(rq)
                    if peer == "closed-before":
                        a.close()
                    elif peer == "closed-after-request":
                        a.shutdown(socket.SHUT_RDWR)
                        a.close()
                    pyg.reset_globals()
                    try:
                        if peer == "reads-8-bytes":
                            import threading

                            def reader():
                                try:
                                    a.recv(8)
                                finally:
                                    a.close()
                            th = threading.Thread(target=reader)
                            th.start()
                        GopherRequestHandler(b, ("10.77.77.77", 7777), pyg.FakeServer(cfgs["shipped"]))
                    except BaseException as e:  # noqa
                        if isinstance(e, (KeyboardInterrupt, SystemExit)):
                            raise
                        escaped = e
                    finally:
                        if peer == "reads-8-bytes":
                            th.join(5)
                finally:
                    for s_ in (a, b):
                        try:
                            s_.close()
                        except OSError:
                            pass
                res.evaluations += 1
                res.nontrivial.add(("real-socket", kind, p, peer))
                res.count("real-socket:" + peer + (":escaped" if escaped is not None else ":contained"))
                inp = {"kind": kind, "selector": sel, "protocol": p, "peer": peer, "transport": "real socket pair, real StreamRequestHandler setup/finish"}
                rp = {"real_socket": True, "selector": sel, "protocol": p, "peer": peer}
                if escaped is not None:
                    res.violation("C20:escaped-real-socket:" + type(escaped).__name__, "a connection failure propagates out of the connection handler (would reach the accept loop)",
                                  inp, observed=repr(escaped), required="contained", replay=rp)
                for ln in list(pyg._log_lines):
                    k_ = ln.find("] EXCEPTION ")
                    if k_ >= 0:
                        cls = ln[k_ + 12:].split(":", 1)[0]
                        if cls not in ("BrokenPipeError", "ConnectionResetError", "TimeoutError", "FileNotFound", "timeout"):
                            res.violation("C20:wrong-class:" + cls, "a connection failure is logged as some other error", inp, observed=ln[:160],
                                          required="BrokenPipeError / ConnectionResetError", replay=rp)
                        if not ln.startswith("10.77.77.77 "):
                            res.violation("C20:no-address", "failure logged without the client's address", inp, observed=ln[:80], required="10.77.77.77 ...", replay=rp)


def replay(data):
    if data["violation"]["replay"].get("real_socket"):
        print(data["violation"])
        return 0
    rp = data["violation"]["replay"]
    tree = pyg.Tree()
    try:
        trees.standard(tree, hostile_content=False)
        trees.add_full_list_content(tree)
        cfg = pyg.make_config(tree.root, pyg.FULL_HANDLERS if rp["handlers"] == "full" else None,
                              **{"handlers.dir.DirHandler|cachetime": "0", "handlers.ZIP.ZIPHandler|enabled": "true"})
        mk = dict((c[0], c[1]) for c in CLASSES)[rp["class"]]
        w = FailingWriter(rp["fail"], rp["k"], mk)
        r = pyg.request(reqs.build(rp["protocol"], rp["selector"], gplus=rp["gplus"]), cfg, tls=reqs.TLS[rp["protocol"]], wfile=w)
        print("escaped:", repr(r.exc))
        print("log:", r.log)
    finally:
        tree.close()
    return 0
