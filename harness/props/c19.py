"""C19 — privileges are dropped completely and in the right order at start-up.

The tie is complete and lives in Lean (`table_agrees`): Generated.initTable is the code's
behaviour on every (tls, chroot, setuid, setgid, fault position), obtained by executing
initialization.initialize under substituted calls.  This module is the failing-input
search: the same rows judged by an independent statement of the property in Python.
"""
import ast
import json
import os
import subprocess
import sys

import pyg
from main import Result

HERE = os.path.dirname(os.path.abspath(__file__))
PRIV = ("chroot", "setgroups", "setregid", "setreuid", "setuid", "setgid", "seteuid", "setegid",
        "setresuid", "setresgid", "initgroups")


def rows():
    p = subprocess.run([sys.executable, "-B", os.path.join(os.path.dirname(HERE), "c19_trace.py"), pyg.REPO],
                       capture_output=True, text=True, timeout=600)
    if p.returncode != 0:
        raise RuntimeError("c19_trace failed: " + p.stderr[-500:])
    return json.loads(p.stdout)


def judge(r):
    """-> list of (key, what) for one executed row"""
    names = [t[0] for t in r["trace"]]
    bad = []

    def idx(n):
        return names.index(n) if n in names else None

    def first_priv():
        for i, n in enumerate(names):
            if n in PRIV:
                return i
        return None
    fp = first_priv()
    ib = idx("bind")
    if fp is not None and (ib is None or ib > fp):
        bad.append(("bind-after-drop", "a privilege is given up before the listening socket is bound"))
    if r["tls"] and fp is not None:
        ik = idx("loadKeys")
        if ik is None or ik > fp:
            bad.append(("keys-after-drop", "a privilege is given up before the TLS key pair is loaded"))
    ic = idx("chroot")
    ids = [i for i, n in enumerate(names) if n in PRIV and n != "chroot"]
    if ic is not None and ids and min(ids) < ic:
        bad.append(("chroot-not-first", "an id change happens before chroot"))
    if ic is not None and len(names) > ic + 1:
        # start-up went on after chroot: the cwd must be moved inside the new root before anything else
        # (wherever the server was started from: the source tree, the root, below it, a sibling of it)
        nxt = r["trace"][ic + 1]
        if nxt[0] != "chdir" or nxt[1:] != ["/"]:
            bad.append(("no-chdir-after-chroot", "working directory not moved into the new root right after chroot"
                        + (" (started from: %s)" % r.get("start_cwd") if r.get("start_cwd") else "")))
    if r["chroot"] and r["fault"] is None:
        if ic is None:
            bad.append(("chroot-skipped", "chroot configured but not performed"))
        if r["root_after"] != "/":
            bad.append(("root-not-rewritten", "document root not rewritten to / after chroot"))
    ig, irg, iru = idx("setgroups"), idx("setregid"), idx("setreuid")
    for i_id, nm in ((irg, "setregid"), (iru, "setreuid")):
        if i_id is not None and (ig is None or ig > i_id):
            bad.append(("groups-not-cleared-first", f"{nm} before supplementary groups are cleared"))
    if ig is not None and r["trace"][ig][1:] not in (["()"], ["[]"]):
        bad.append(("groups-not-empty", "setgroups called with a non-empty list"))
    if irg is not None and iru is not None and irg > iru:
        bad.append(("uid-before-gid", "user changed before group"))
    if r["fault"] is None:
        if r["raised"] is not None:
            bad.append(("spurious-raise", "start-up raised without a fault"))
        if r["setgid"] and irg is None:
            bad.append(("gid-skipped", "setgid configured but group not changed"))
        if r["setuid"] and iru is None:
            bad.append(("uid-skipped", "setuid configured but user not changed"))
        if (r["setuid"] or r["setgid"]) and ig is None:
            bad.append(("groups-skipped", "supplementary groups not cleared"))
        for n in ("setuid", "setgid", "seteuid", "setegid"):
            pass
    else:
        if r["raised"] is None:
            bad.append(("failure-swallowed", "a failing start-up step did not abort start-up"))
        elif len(names) != r["fault"] + 1:
            bad.append(("continued-after-failure", "calls were made after the failing step"))
    return bad


def static_observation():
    """Second, independent observation: no try/except around the privileged calls."""
    src = open(os.path.join(pyg.REPO, "pygopherd", "initialization.py")).read()
    tree = ast.parse(src)
    found = []
    for fn in ast.walk(tree):
        if isinstance(fn, ast.FunctionDef) and fn.name == "init_security":
            for node in ast.walk(fn):
                if isinstance(node, ast.Try):
                    found.append(node.lineno)
    return found


def run(ctx):
    res = Result()
    res.rule = ("complete enumeration: 16 option combinations x (no fault + every fault position x 6 failure classes: private OSError, "
                "PermissionError, FileNotFoundError, KeyError, ssl.SSLError, RuntimeError) of the real "
                "initialize(), executed under substituted os/pwd/grp/socket/ssl calls; non-trivial = rows whose "
                "trace contains at least one privilege-dropping call")
    res.assumptions = ["what the kernel does on chroot/setgroups/setregid/setreuid", "detach (fork) is not exercised",
                       "substituted calls are the only route to the privileged system calls (os.* attributes looked up at call time)"]
    rs = rows()
    for r in rs:
        res.evaluations += 1
        names = [t[0] for t in r["trace"]]
        if any(n in PRIV for n in names):
            res.nontrivial.add(json.dumps([r["tls"], r["chroot"], r["setuid"], r["setgid"], r["fault"], r.get("fclass", 0)]))
        res.count("fault" if r["fault"] is not None else "nofault")
        for key, what in judge(r):
            cfg = {k: r.get(k, 0) for k in ("tls", "chroot", "setuid", "setgid", "fault", "fclass")}
            res.violation("C19:" + key, what, cfg, observed={"trace": r["trace"], "raised": r["raised"], "root_after": r["root_after"]},
                          required="bind, keys < chroot < chdir('/') < setgroups(()) < setregid < setreuid; failure aborts",
                          replay=cfg)
    res.sample({"row": {k: rs[-1][k] for k in ("tls", "chroot", "setuid", "setgid", "fault", "raised")},
                "trace": rs[-1]["trace"]})
    res.sample({"row": {k: rs[len(rs) // 2][k] for k in ("tls", "chroot", "setuid", "setgid", "fault", "raised")},
                "trace": rs[len(rs) // 2]["trace"]})
    res.extra["exhaustive"] = True
    res.extra["try_blocks_in_init_security"] = static_observation()
    return res


def replay(data):
    cfg = data["violation"]["replay"]
    for r in rows():
        if all(r.get(k, 0) == cfg[k] for k in cfg):
            print(json.dumps(r, indent=1))
            print("judgement:", judge(r))
    return 0
