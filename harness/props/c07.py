"""C07 — a listing is exactly the visible entries, once each, in a stable order.

Correspondence: real listings (UMN and plain directory handler) with os.listdir returning
seeded permutations vs Model/Umn.dirListing given the same enumeration order; the model's
regex fragment vs Python `re` on the name corpus.  Oracle: listed names == independently
computed visible names, each once; identical output under every permutation; names kept out
of listings are retrievable by exact selector.
"""
import os
import posixpath
import re

import dirmodel
import pyg
import reqs
from leanio import enc_str, dec_str
from main import Result
from props.c05 import parse_gopher

VISIBLE = ["alpha.txt", "Beta.txt", "gamma", "z last.txt", "10.txt", "9.txt", "a.b.c", "UPPER", "data.tar.gz", "caf\xe9.txt", "~tilde",
           "lib64", "binary", "xcap", "etcetera", "q.askew2", "sub", "sub2", "0", "_under", "a b", "AB", "aB", "Ab",
           # a backslash is an ordinary character of a name (only `.\\` and `\\\\` are refused, as sequences)
           "back\\slash.txt", "C:\\AUTOEXEC.BAT", "sub\\dir", "x\\",
           # pieces of the cache file's own name (.cache.pygopherd.dir) are names like any other
           "dir", "cache", "d", "py", "pygopherd.dir", "cache.pygopherd.dir"]
IGNORED = ["backup~", "lost+found", "lib", "bin", "etc", "dev", "veronica.ctl", "robots.txt", "nohup.out", "x.abstract", "y.keyboards",
           "q.ask", "z.3d", "q.askew", "tmp~", "xcap", "a~\n"]
DOT = [".hidden", ".Links", ".names", ".renames", ".forward", ".cache.pygopherd.dir.old", ".message", ".names~", ".Links~"]


class shuffled_listdir:
    def __init__(self, rng):
        self.rng = rng
        self.last = {}

    def __enter__(self):
        self.orig = os.listdir
        me = self

        def ld(path):
            r = me.orig(path)
            me.rng.shuffle(r)
            me.last[path] = list(r)
            return r
        os.listdir = ld
        return self

    def __exit__(self, *a):
        os.listdir = self.orig


def make_dir(tree, rng, d):
    names = rng.sample(VISIBLE, rng.randint(3, 9)) + rng.sample(IGNORED, rng.randint(1, 5)) + rng.sample(DOT, rng.randint(1, 3))
    if d.endswith("0"):
        names += ["gamma", ".names", ".renames"]   # two link files giving the same file different names
    made = []
    for n in names:
        if n in ("xcap",) and "xcap" in made:
            continue
        p = d + "/" + n
        if n in ("sub", "sub2", "lib", "bin", "etc", "dev", "lost+found"):
            tree.mkdir(p)
            tree.write(p + "/inner.txt", b"i")
        elif n == ".Links":
            tree.write(p, b"Name=Extra link\nType=1\nPath=/elsewhere\nHost=example.org\nPort=70\n")
        elif n == ".renames":
            tree.write(p, b"Path=./gamma\nName=Other name for gamma\nNumb=3\n\nName=Extra link\nType=1\nPath=/elsewhere2\nHost=example.org\nPort=70\n")
        elif n in (".names~", ".Links~"):
            # an editor's backup of a link file: the ignore pattern matches it (~$), so it is not read as a link file
            tree.write(p, b"Path=./gamma\nType=X\n\nName=Stale link from a backup file\nType=1\nPath=/stale\nHost=example.org\nPort=70\n")
            if "gamma" not in names and "gamma" not in made:
                tree.write(d + "/gamma", b"content of gamma\n")
                made.append("gamma")
        elif n == ".names":
            tree.write(p, b"# comment\nPath=./gamma\nName=Gamma renamed\n")
        else:
            tree.write(p, b"content of " + n.encode("utf-8", "surrogateescape") + b"\n")
        made.append(n)
    # side files that exist but cannot be read as files: a directory named <file>.abstract, a link <file>.keyboards that
    # points at itself.  The owning files are listed all the same (without the side information).
    plain = [n for n in made if n in VISIBLE and n not in ("sub", "sub2") and "\n" not in n]
    if plain and rng.random() < 0.6:
        n0 = rng.choice(plain)
        tree.mkdir(d + "/" + n0 + ".abstract")
        tree.write(d + "/" + n0 + ".abstract/inside.txt", b"a directory where an abstract is looked for\n")
        made.append(n0 + ".abstract")
        n1 = rng.choice(plain)
        lp = tree.path(d + "/" + n1 + ".keyboards")
        if not os.path.lexists(lp):
            os.symlink(os.path.basename(lp), lp)
            made.append(n1 + ".keyboards")
    return sorted(set(made))


def run(ctx):
    res = Result()
    res.rule = ("directories with seeded mixes of visible names, names on both sides of every ignore-pattern alternative (including a "
                "trailing newline for '$'), dot files and link files; both directory handlers; os.listdir returning seeded permutations. "
                "non-trivial = directory with >= 1 ignored, >= 1 dot and >= 3 visible names, distinct by (names, handler)")
    res.assumptions = ["the ignore pattern stays inside the modelled regex fragment (alternation of literal / '.' / escaped items with optional '$'); "
                       "otherwise the tie is reported degraded", "os.listdir is the only enumeration primitive the handlers use"]
    rng = ctx.rng
    tree = pyg.Tree()
    try:
        model_lines, checks = [], []
        regex_lines, regex_checks = [], []
        cfg_umn = pyg.make_config(tree.root, **{"handlers.dir.DirHandler|cachetime": "0"})
        cfg_dir = pyg.make_config(tree.root, pyg.DIR_HANDLERS, **{"handlers.dir.DirHandler|cachetime": "0"})
        patt = cfg_umn.get("handlers.dir.DirHandler", "ignorepatt")
        def probe(tr, cu, cd, d, names):
            """d: selector of the directory without trailing slash ('' for the root)"""
            for hname, cfg, umn in (("umn", cu, True), ("dir", cd, False)):
                outs = []
                for perm in range(3):
                    with shuffled_listdir(rng) as sh:
                        r = pyg.request(reqs.build("gopher", d or "/"), cfg)
                        order = sh.last.get(tr.path(d), None) or sh.last.get(os.fsdecode(tr.path(d))) or sh.last.get(os.fsdecode(tr.path(d)).rstrip("/")) or sh.last.get(tr.path(d).rstrip(b"/"))
                    res.evaluations += 1
                    outs.append(r.out)
                    if order is not None:
                        order = [os.fsdecode(x) if isinstance(x, bytes) else x for x in order]
                        model_lines.append(dirmodel.request(tr, cfg, d or "/", order, umn=umn))
                        checks.append(({"dir": d, "handler": hname, "enumeration": order}, r.out))
                inp = {"dir": d, "handler": hname, "names": names}
                rp = {"names": names, "handler": hname}
                if len(set(outs)) != 1:
                    res.violation(f"C07:order-depends-on-enumeration:{hname}", "the listing changes with the order in which the OS enumerates the directory",
                                  inp, observed=[o[:200] for o in set(outs)], required="one listing", replay=rp)
                ents = parse_gopher(outs[0])
                if reqs.classify("gopher", outs[0])[0] == "notfound":
                    res.violation(f"C07:not-listed:{hname}", "directory not listed", inp, observed=outs[0][:100], required="listing", replay=rp)
                    continue
                listed = [e[2] for e in ents if e[0] != "i" and e[3] == "srv.example"]
                vis = []
                for n in names:
                    if re.search(patt, d + "/" + n):
                        continue
                    if umn and n.startswith("."):
                        continue
                    vis.append(d + "/" + n)
                nvis = len(vis)
                if nvis >= 3 and any(re.search(patt, d + "/" + n) for n in names) and any(n.startswith(".") for n in names):
                    res.nontrivial.add((tuple(names), hname))
                local = [s for s in listed if s.startswith(d + "/")]
                # a ./ block in a link file whose target is not in the directory adds an entry of its own
                # (UMN rule; two such blocks add two): those are the author's entries, not directory entries
                gsel = d + "/gamma"
                if umn and "gamma" not in names:
                    local = [s for s in local if s != gsel]
                if sorted(local) != sorted(vis):
                    res.violation(f"C07:wrong-set:{hname}", "listed names differ from the visible names of the directory", inp,
                                  observed=sorted(local), required=sorted(vis), replay=rp)
                if len(set(local)) != len(local):
                    res.violation(f"C07:duplicate:{hname}", "an entry is listed more than once", inp, observed=local, required="each once", replay=rp)
                if not umn and local != sorted(local):
                    res.violation("C07:unsorted:dir", "plain directory listing is not in name order", inp, observed=local, required=sorted(local), replay=rp)
                # other spellings of the same directory (trailing slash, final '/.'): either refused, or the same members
                for alt in ((d + "/", d + "/.") if d else ()):
                    ra = pyg.request(reqs.build("gopher", alt), cfg)
                    res.evaluations += 1
                    if reqs.classify("gopher", ra.out)[0] == "notfound":
                        continue
                    la = [posixpath.normpath(e[2]) for e in parse_gopher(ra.out) if e[0] != "i" and e[3] == "srv.example"]
                    la = [x for x in la if x.startswith(d + "/") and not (umn and "gamma" not in names and x == gsel)]
                    if sorted(la) != sorted(vis):
                        res.violation(f"C07:wrong-set:{hname}:alt-spelling", "a listing of the directory under another spelling of its selector lacks visible members",
                                      dict(inp, selector=alt), observed=sorted(la), required=sorted(vis), replay=dict(rp, selector=alt))
                # hidden entries remain retrievable by exact selector
                for n in names:
                    sel = d + "/" + n
                    if sel in vis or "\n" in n or not os.path.exists(tr.path(sel)):      # (a link that points at itself is no object)
                        continue
                    rr = pyg.request(reqs.build("gopher", sel), cfg)
                    res.evaluations += 1
                    if reqs.classify("gopher", rr.out)[0] == "notfound" or rr.exc:
                        res.violation(f"C07:hidden-not-retrievable:{hname}", "an entry kept out of the listing cannot be fetched by its selector",
                                      {"selector": sel, "handler": hname}, observed=rr.out[:80], required="the object", replay=rp)
            for n in names + rng.sample(VISIBLE + IGNORED, 6):
                s = d + "/" + n
                regex_lines.append("research\t" + enc_str(s))
                regex_checks.append((s, re.search(patt, s) is not None))

        ndirs = ctx.n(25, 400)
        for i in range(ndirs):
            d = "/d%d" % i
            names = make_dir(tree, rng, d)
            probe(tree, cfg_umn, cfg_dir, d, names)
        # dot-directories: kept out of their parent's listing, but their own listing is a listing like any other
        for d in ("/d0/.well-known", "/d1/.attic/2019", "/.topdot"):
            names = make_dir(tree, rng, d)
            probe(tree, cfg_umn, cfg_dir, d, names)
        # the root directory itself (the '/'-anchored alternatives of the ignore pattern apply there too)
        tree_r = pyg.Tree()
        try:
            names = make_dir(tree_r, rng, "")
            for n in ("lib", "bin", "etc", "robots.txt", "nohup.out", "veronica.ctl", "readme.txt", "library"):
                if n not in names:
                    if n in ("lib", "bin", "etc"):
                        tree_r.mkdir("/" + n)
                    else:
                        tree_r.write("/" + n, b"x")
                    names.append(n)
            names = sorted(set(names))
            probe(tree_r, pyg.make_config(tree_r.root, **{"handlers.dir.DirHandler|cachetime": "0"}),
                  pyg.make_config(tree_r.root, pyg.DIR_HANDLERS, **{"handlers.dir.DirHandler|cachetime": "0"}), "", names)
        finally:
            tree_r.close()
        # with the listing cache on (shipped lifetime): a request that only *prepares* a listing (HTTP HEAD, Gopher+ '!') must not
        # change what the next listing of the directory shows.  Twin directories: one is listed straight away, the other after such
        # requests; link files, hidden files and .cap overrides in both.
        tw = pyg.Tree()
        try:
            cfg_c = pyg.make_config(tw.root)      # shipped cache lifetime
            for twin in ("ta", "tb"):
                for n_ in ("alpha.txt", "beta.txt", "secret.txt", "zeta.txt", "page.html"):
                    tw.write(twin + "/" + n_, b"content of " + n_.encode() + b"\n")
                tw.write(twin + "/.Links", b"Path=./secret.txt\nType=X\n\nName=A remote entry\nType=1\nPath=/r\nHost=example.org\nPort=70\nNumb=1\n\nPath=./zeta.txt\nName=Zeta first\nNumb=2\n")
                tw.write(twin + "/.cap/beta.txt", b"Name=Beta by cap\n")
                tw.mkdir(twin + "/sub")
            for pre in ((b"HEAD /tb HTTP/1.0\r\n\r\n", False), (b"/tb\t!\r\n", False), (b"HEAD /wap/tb HTTP/1.0\r\n\r\n", False)):
                pyg.request(pre[0], cfg_c, tls=pre[1])
            for view_p in ("gopher", "http", "gemini"):
                ra = pyg.request(reqs.build(view_p, "/ta"), cfg_c, tls=reqs.TLS[view_p])
                rb = pyg.request(reqs.build(view_p, "/tb"), cfg_c, tls=reqs.TLS[view_p])
                res.evaluations += 2
                na = re.sub(rb"(Last-Modified|Mod-Date):[^\r\n]*", b"T", ra.out or b"").replace(b"/ta", b"/t@").replace(b": ta<", b": t@<")
                nb = re.sub(rb"(Last-Modified|Mod-Date):[^\r\n]*", b"T", rb.out or b"").replace(b"/tb", b"/t@").replace(b": tb<", b": t@<")
                res.nontrivial.add(("prepare-only-then-list", view_p))
                if na != nb:
                    k_ = next((i_ for i_, (x_, y_) in enumerate(zip(na, nb)) if x_ != y_), min(len(na), len(nb)))
                    res.violation("C07:listing-after-prepare-only-request", "the listing of a directory differs after a request that only prepared it (HEAD / item information)",
                                  {"view": view_p, "before": ["HEAD /tb", "/tb<TAB>!", "HEAD /wap/tb"]}, observed=nb[max(0, k_ - 60):k_ + 120], required=na[max(0, k_ - 60):k_ + 120],
                                  replay={"names": ["alpha.txt", "beta.txt", "secret.txt", "zeta.txt", "page.html", ".Links", ".cap/beta.txt"], "handler": "umn"})
        finally:
            tw.close()
        metadata_conflicts_and_edits(ctx, res)
        archive_member_order(ctx, res)
        from props import c08
        c08.big_link_file(res, "C07")        # entries hidden by blocks late in a large link file stay hidden
        c08.trailing_slash_blocks(res, "C07")   # ... and a directory hidden or renamed by 'Path=./dir/' is hidden, or listed once
        outs = ctx.driver.run(model_lines + regex_lines)
        for (inp, impl), o in zip(checks, outs[:len(model_lines)]):
            res.evaluations += 1
            if o == "REGEX-UNSUPPORTED":
                res.degraded.append("ignorepatt outside the modelled regex fragment")
                continue
            model = o if o.startswith("CRASH") else dec_str(o).encode("utf-8", "surrogateescape")
            if model != impl:
                res.disagree("C07.dirlisting", inp, str(model)[:500], str(impl)[:500])
        for (s, impl), o in zip(regex_checks, outs[len(model_lines):]):
            res.evaluations += 1
            if o == "REGEX-UNSUPPORTED":
                continue
            if (o == "T") != impl:
                res.disagree("C07.regex", s, o == "T", impl)
        res.sample({"dir": checks[0][0]["dir"], "enumeration": checks[0][0]["enumeration"], "handler": checks[0][0]["handler"]})
        res.sample({"listing": checks[0][1][:300]})
    finally:
        tree.close()
    # the whole-site model (tree -> resolution -> dispatch -> entries -> rendering) against the real server
    import sitecorr
    sitecorr.compare(ctx, res, ctx.n(4, 40), "C07")
    res.degraded = sorted(set(res.degraded + list(pyg.degraded)))
    return res


def archive_member_order(ctx, res):
    """The order in which an archive stores its members is an enumeration order too: archives that hold the same members in
    different orders list alike (two link files whose blocks interact, as in a directory on disk)."""
    import zipfile
    import itertools
    members = [("d/x.txt", b"x\n"), ("d/y.txt", b"y\n"), ("d/zz.txt", b"z\n"),
               ("d/.Links", b"Name=Same name\nNumb=1\nType=1\nPath=/r1\nHost=one.example\nPort=70\n\nPath=./x.txt\nName=X as .Links says\n"),
               ("d/.names", b"Name=Same name\nNumb=1\nType=1\nPath=/r2\nHost=two.example\nPort=70\n\nPath=./x.txt\nName=X as .names says\n"),
               ("d/.extra", b"Path=./y.txt\nNumb=3\n")]
    tree = pyg.Tree()
    try:
        orders = [members, list(reversed(members)), [members[i] for i in (4, 0, 3, 2, 5, 1)], [members[i] for i in (3, 4, 5, 0, 1, 2)]]
        for k, order in enumerate(orders):
            with zipfile.ZipFile(os.fsdecode(tree.path("arch%d.zip" % k)), "w") as z:
                for name, data in order:
                    z.writestr(name, data)
        cfg = pyg.make_config(tree.root, pyg.FULL_HANDLERS, **{"handlers.dir.DirHandler|cachetime": "0", "handlers.ZIP.ZIPHandler|enabled": "true"})
        outs = []
        for k in range(len(orders)):
            r = pyg.request(reqs.build("gopher", "/arch%d.zip/d" % k), cfg)
            outs.append((r.out or b"").replace(b"/arch%d.zip" % k, b"/arch@.zip"))
            res.evaluations += 1
            res.nontrivial.add(("archive-member-order", k))
        for k in range(1, len(outs)):
            if outs[k] != outs[0] or b"x.txt" not in outs[0]:
                res.violation("C07:order-depends-on-enumeration:zip", "archives with the same members stored in different orders list differently",
                              {"order": [n for n, _ in orders[k]], "against": [n for n, _ in orders[0]]}, observed=outs[k][:400], required=outs[0][:400],
                              replay={"names": [n for n, _ in orders[k]], "handler": "umn"})
    finally:
        tree.close()
        pyg.reset_globals()


def metadata_conflicts_and_edits(ctx, res):
    """(a) a file hidden by one link file and named by another stays hidden, whichever of the two files sorts first;
    (b) metadata edited in place (a link file rewritten, a .cap file added: the directory's own time stamp does not move)
    shows in the first listing made after the cache lifetime has passed."""
    import time as _time
    from props import c10
    tw = pyg.Tree()
    try:
        cfg0 = pyg.make_config(tw.root, **{"handlers.dir.DirHandler|cachetime": "0"})
        for d, first, second in (("hx", ".Links", ".names"), ("hy", ".aaa", ".zzz")):
            for n_ in ("notes.txt", "draft.txt", "report.txt"):
                tw.write(d + "/" + n_, b"x\n")
            hide, name = b"Path=./draft.txt\nType=X\n", b"Path=./draft.txt\nName=The draft, renamed\nNumb=1\n"
            tw.write(d + "/" + first, hide if d == "hx" else name)
            tw.write(d + "/" + second, name if d == "hx" else hide)
            for view_p in ("gopher", "http", "gemini"):
                r = pyg.request(reqs.build(view_p, "/" + d), cfg0, tls=reqs.TLS[view_p])
                res.evaluations += 1
                res.nontrivial.add(("hide-and-name", d, view_p))
                if b"draft" in (r.out or b"") or b"notes" not in (r.out or b""):
                    res.violation("C07:listed-though-hidden:umn", "a file hidden by one link file is listed because another link file names it",
                                  {"dir": d, "files": {first: "hide" if d == "hx" else "name", second: "name" if d == "hx" else "hide"}, "view": view_p},
                                  observed=(r.out or b"")[:300], required="notes.txt and report.txt only",
                                  replay={"names": ["notes.txt", "draft.txt", "report.txt", first, second], "handler": "umn"})
        # (b) in-place edits, shipped cache lifetime, the clock moved past it
        cfg_c = pyg.make_config(tw.root)
        life = cfg_c.getint("handlers.dir.DirHandler", "cachetime")
        for hname, handlers in (("umn", None), ("dir", pyg.DIR_HANDLERS)):
            cfg_h = pyg.make_config(tw.root, handlers)
            d = "ed" + hname
            for n_ in ("alpha.txt", "bravo.txt", "delta.txt"):
                tw.write(d + "/" + n_, b"x\n")
            tw.write(d + "/.names", b"Path=./bravo.txt\nType=X\n# padding so that the rewrite below has the same length...........\n")
            tw.mkdir(d + "/.cap")
            before = pyg.request(reqs.build("gopher", "/" + d), cfg_h).out
            dstat = os.stat(tw.path(d))
            # rewrite the link file in place (same length, same inode) and add a .cap file: the directory's mtime stays
            with open(tw.path(d + "/.names"), "r+b") as f_:
                f_.write(b"Path=./delta.txt\nType=X\n# now delta is the hidden one, bravo is back...............\n")
            tw.write(d + "/.cap/alpha.txt", b"Name=Alpha renamed by cap\n")
            os.utime(tw.path(d), ns=(dstat.st_atime_ns, dstat.st_mtime_ns))
            clock = c10.Clock()
            clock.ms = int((_time.time() + life + 5) * 1000)
            old = c10.set_clock(clock)
            try:
                after = pyg.request(reqs.build("gopher", "/" + d), cfg_h).out
            finally:
                c10.restore_clock(old)
            cpath = tw.path(d + "/" + cfg_h.get("handlers.dir.DirHandler", "cachefile"))
            if os.path.exists(cpath):
                os.unlink(cpath)
            fresh = pyg.request(reqs.build("gopher", "/" + d), cfg0 if handlers is None else pyg.make_config(tw.root, handlers, **{"handlers.dir.DirHandler|cachetime": "0"})).out
            res.evaluations += 3
            res.nontrivial.add(("in-place-edit", hname))
            if after != fresh or (hname == "umn" and after == before):
                res.violation("C07:stale-after-lifetime:" + hname, "metadata edited in place does not show in a listing made after the cache lifetime",
                              {"dir": d, "handler": hname, "edits": [".names rewritten in place", ".cap/alpha.txt added"], "seconds_after": life + 5},
                              observed=(after or b"")[:300], required=(fresh or b"")[:300],
                              replay={"names": ["alpha.txt", "bravo.txt", "delta.txt", ".names", ".cap/alpha.txt"], "handler": hname})
    finally:
        tw.close()


def replay(data):
    rp = data["violation"]["replay"]
    if rp.get("trailing_slash_blocks"):
        from props import c08
        r = Result()
        c08.trailing_slash_blocks(r, "C07")
        print(r.violations)
        return 0
    if rp.get("big_link_file"):
        from props import c08
        r = Result()
        c08.big_link_file(r, "C07")
        print(r.violations)
        return 0
    print("directory members:", rp.get("names"), "handler:", rp.get("handler"), "selector:", rp.get("selector"))
    return 0
