"""C17 — simpleTAL executes templates according to TAL/TALES semantics.

Correspondence on templates drawn from a TAL grammar (nesting <= 4, every subset of the six
commands per element, local/global defines, nested repeats, alternation, exists/not/nocall/
string, repeat variables, attrs): (a) compiled program — real template.commandList with the
symbol table resolved vs the model's `compile`; (b) expansion — real expand vs the model's
stack machine AND the model's tree-walking `denote` (the refinement theorem's two sides);
(c) context after expansion.  Oracle: an independent tree-walking evaluator in Python.
"""
import random

import talgen
from leanio import dec_str
from main import Result


def run(ctx):
    res = Result()
    res.rule = ("seeded templates (1-3 top-level nodes, depth <= 4, TAL on ~60% of elements with every command subset; conditions biased to true, "
                "repeats to non-empty sequences) expanded over a context of strings with markup, numbers, empty/non-empty lists, maps, None. "
                "non-trivial = templates with >= 2 TAL commands on one element or a repeat nested in a repeat, distinct by template text")
    res.assumptions = ["html.parser tokenisation is outside the model: templates enter as event trees in normal form; the generator's static text avoids & and <",
                       "XML templates and python: expression values are not modelled (python: is an oracle constant); METAL is modelled as tree substitution for macro expressions that name a macro statically, "
                       "with no TAL command on use-macro and define-slot elements (TAL commands run before METAL ones on one element)",
                       "repeat over dictionaries and iterators, path steps that hit Python attributes of str/list/dict are outside the value domain"]
    rnd = ctx.rng
    n = ctx.n(700, 12000)
    lines, cases = [], []
    rendered = 0
    elems = 0
    for i in range(n):
        if len(res.violations) >= 12:
            break
        ast = talgen.FIXED[i] if i < len(talgen.FIXED) else [talgen.gen(rnd) for _ in range(rnd.randint(1, 3))]
        tpl = "".join(talgen.ser(x) for x in ast)
        g = talgen.ctxvals()
        allow = rnd.random() < 0.2
        try:
            t, prog = talgen.real_compile(tpl)
            rout, rsnap = talgen.real_expand(t, g, allow)
        except KeyError as e:
            # tal:repeat over a mapping (e.g. `x x` inside a repeat over people): not a sequence, outside TAL's domain
            res.count("out-of-domain:repeat-over-mapping")
            continue
        except Exception as e:  # noqa
            res.violation("C17:real-raises:" + type(e).__name__, "compiling or expanding a well-formed template raised", {"template": tpl},
                          observed=repr(e), required="an expansion", replay={"template": tpl, "allow": allow})
            continue
        res.evaluations += 1
        # oracle
        try:
            oout, oc = talgen.oracle_expand(ast, g, allow)
        except Exception as e:  # noqa
            oout, oc = "ORACLE-EXC " + repr(e), None
        multi = any(len(x[3]) >= 2 for x in _walk(ast)) or _nested_repeat(ast)
        if multi:
            res.nontrivial.add(tpl)
        elems += sum(1 for _ in _walk(ast))
        rendered += rout.count("<")
        if oout != rout:
            res.violation("C17:semantics", "expansion differs from TAL/TALES semantics (independent evaluator)", {"template": tpl, "allow_python": allow},
                          observed=rout[:400], required=oout[:400], replay={"template": tpl, "allow": allow})
        if rsnap["locals"] or rsnap["localStack"] or rsnap["repeatStack"] or rsnap["repeatMap"]:
            res.violation("C17:context-leftover", "the context is not restored after expansion", {"template": tpl}, observed=rsnap, required="empty", replay={"template": tpl, "allow": allow})
        nodes = talgen.nf(ast)
        enc = talgen.enc_nodes(nodes)
        lines.append("talcompile\t" + enc)
        cases.append(("compile", tpl, prog))
        lines.append("\t".join(["talexpand", "T" if allow else "F", talgen.enc_val(g), enc]))
        cases.append(("expand", tpl, (rout, rsnap)))
    # ---- METAL: a macro library and a page using it (slot fillers, nested uses, the page's own macros) ------------------
    import metalgen
    mlines, mcases = [], []
    for i in range(ctx.n(150, 2500)):
        if len(res.violations) >= 12:
            break
        lib, page = metalgen.gen_case(rnd)
        lib2 = metalgen.second_library()
        ls = "".join(metalgen.ser(x) for x in lib)
        l2s = "".join(metalgen.ser(x) for x in lib2)
        ps = "".join(metalgen.ser(x) for x in page)
        g = talgen.ctxvals()
        g["mac"] = g["mac2"] = g["own"] = "MACROS"      # placeholders: the model's context holds the names, the macros live in the table
        try:
            rout, rctx = metalgen.real_expand(ls, ps, {k: v for k, v in g.items() if k not in ("mac", "mac2", "own")}, l2s)
        except KeyError:
            res.count("out-of-domain:repeat-over-mapping")
            continue
        except Exception as e:  # noqa
            res.violation("C17:real-raises:" + type(e).__name__, "compiling or expanding a well-formed template with macros raised", {"library": ls, "page": ps},
                          observed=repr(e), required="an expansion", replay={"metal": True, "library": ls, "page": ps})
            continue
        res.evaluations += 1
        uses = ps.count("metal:use-macro")
        fills = ps.count("metal:fill-slot")
        res.count("metal:uses", uses)
        res.count("metal:fills", fills)
        if uses and fills:
            res.nontrivial.add(ps)
        try:
            oout, _plain = metalgen.oracle_expand(lib, page, g, lib2)
        except Exception as e:  # noqa
            oout = "ORACLE-EXC " + repr(e)
        if oout != rout:
            res.violation("C17:metal-semantics", "macro expansion differs from METAL semantics (use-macro = the macro's element with the use site's fillers in its slots)",
                          {"library": ls, "page": ps}, observed=rout[:500], required=oout[:500], replay={"metal": True, "library": ls, "page": ps})
        if rctx.locals or rctx.localStack or rctx.repeatStack:
            res.violation("C17:context-leftover", "the context is not restored after a macro expansion", {"library": ls, "page": ps},
                          observed={"locals": dict(rctx.locals), "stack": len(rctx.localStack)}, required="empty", replay={"metal": True, "library": ls, "page": ps})
        nl, npg = metalgen.nf(lib), metalgen.nf(page)
        table = metalgen.macro_table("mac/", nl) + metalgen.macro_table("mac2/", metalgen.nf(lib2)) + metalgen.macro_table("own/", npg)
        mlines.append("\t".join(["talmetal", "F", talgen.enc_val(g), metalgen.enc_macros(table), metalgen.enc_mnodes(npg)]))
        mcases.append((ls, ps, rout))
    mouts = ctx.driver.run(mlines)
    for (ls, ps, rout), o in zip(mcases, mouts):
        res.evaluations += 1
        f = o.split("\t")
        mout = f[0] if f[0] == "MACHINE-STUCK" else dec_str(f[0])
        dout = dec_str(f[1]) if len(f) > 1 else None
        if mout != rout:
            res.disagree("C17.metal-machine", {"library": ls, "page": ps}, str(mout)[:400], rout[:400])
        if dout != rout:
            res.disagree("C17.metal-denote", {"library": ls, "page": ps}, str(dout)[:400], rout[:400])
    # ---- templates included through `structure`: a table of compiled templates in the context, pages that include them ----
    import includegen
    ilines, icases = [], []
    for i in range(ctx.n(150, 2500)):
        if len(res.violations) >= 12:
            break        # (the engine is broken on this kind of page: every further case costs its time limit)
        tpls, page = includegen.FIXED[i] if i < len(includegen.FIXED) else includegen.gen_case(rnd)
        g = talgen.ctxvals()
        src = {k: includegen.ser_all(v) for k, v in tpls.items()}
        ps = includegen.ser_all(page)
        rpl = {"include": True, "templates": src, "page": ps}
        try:
            rout, rctx = includegen.real_expand(tpls, page, g)
        except KeyError:
            res.count("out-of-domain:repeat-over-mapping")
            continue
        except Exception as e:  # noqa
            res.violation("C17:real-raises:" + type(e).__name__, "expanding a page that includes compiled templates raised", {"templates": src, "page": ps},
                          observed=repr(e), required="an expansion", replay=rpl)
            continue
        res.evaluations += 1
        res.count("include:sites", ps.count("structure tpl"))
        if ps.count("structure tpl") >= 2 or "tal:repeat" in ps:
            res.nontrivial.add(ps + repr(sorted(src.items())))
        flat = includegen.inline(page, tpls)
        try:
            oout, _oc = talgen.oracle_expand(flat, g, False)
        except Exception as e:  # noqa
            oout = "ORACLE-EXC " + repr(e)
        if oout != rout:
            res.violation("C17:include-semantics", "a page including compiled templates through `structure` does not expand to the included templates' nodes in place",
                          {"templates": src, "page": ps}, observed=rout[:500], required=oout[:500], replay=rpl)
        if rctx.locals or rctx.localStack or rctx.repeatStack:
            res.violation("C17:context-leftover", "the context is not restored after an inclusion", {"templates": src, "page": ps},
                          observed={"locals": dict(rctx.locals), "stack": len(rctx.localStack)}, required="empty", replay=rpl)
        ilines.append("\t".join(["talinclude", "F", talgen.enc_val(g), includegen.enc_tpls(tpls), talgen.enc_nodes(talgen.nf(page))]))
        icases.append((src, ps, rout))
    iouts = ctx.driver.run(ilines)
    for (src, ps, rout), o in zip(icases, iouts):
        res.evaluations += 1
        f = o.split("\t")
        mout = f[0] if f[0] == "MACHINE-STUCK" else dec_str(f[0])
        dout = dec_str(f[1]) if len(f) > 1 else None
        if mout != rout:
            res.disagree("C17.include-machine", {"templates": src, "page": ps}, str(mout)[:400], rout[:400])
        if dout != rout:
            res.disagree("C17.include-denote", {"templates": src, "page": ps}, str(dout)[:400], rout[:400])
    outs = ctx.driver.run(lines)
    for (kind, tpl, impl), o in zip(cases, outs):
        res.evaluations += 1
        if kind == "compile":
            model = talgen.dec_prog(o)
            if model != impl:
                d = next((i for i, (a, b) in enumerate(zip(model, impl)) if a != b), min(len(model), len(impl)))
                res.disagree("C17.compile", {"template": tpl, "first_difference_at": d}, str(model[d:d + 2])[:300], str(impl[d:d + 2])[:300])
        else:
            f = o.split("\t")
            rout, rsnap = impl
            if f[0] == "MACHINE-STUCK":
                res.disagree("C17.expand", {"template": tpl}, "machine stuck", rout[:200])
                continue
            mout = dec_str(f[0])
            mlocals = talgen.dec_val(f[1].split(" "))
            mglobals = talgen.dec_val(f[2].split(" "))
            dout = dec_str(f[7])
            if mout != rout:
                res.disagree("C17.expand-machine", {"template": tpl}, mout[:400], rout[:400])
            if dout != rout:
                res.disagree("C17.expand-denote", {"template": tpl}, dout[:400], rout[:400])
            snap = {"locals": mlocals, "localStack": int(f[3]), "repeatStack": int(f[4]), "repeatMap": int(f[5])}
            want = {k: rsnap[k] for k in snap}
            if snap != want:
                res.disagree("C17.context", {"template": tpl}, snap, want)
            base = talgen.ctxvals()
            gm = {k: v for k, v in mglobals.items()}
            gr = {k: v for k, v in rsnap["globals"].items()}
            if gm != gr:
                res.disagree("C17.globals", {"template": tpl}, {k: v for k, v in gm.items() if gr.get(k) != v}, {k: v for k, v in gr.items() if gm.get(k) != v})
    res.extra["elements_generated"] = elems
    res.extra["tags_rendered"] = rendered
    if cases:
        res.sample({"template": cases[0][1], "compiled": str(cases[0][2])[:400]})
        res.sample({"template": cases[-1][1], "expansion": cases[-1][2][0][:300]})
    _handler_histories(ctx, res)
    return res


def _handler_histories(ctx, res):
    """pygopherd's TAL handler in one server process: the page and the templates it includes (through dir/ root/ rdir/) are
    replaced between requests -- with a newer, the same and an older modification time.  Each answer is the expansion of the
    files as they are at that request (what a server that has served nothing before answers)."""
    import os
    import pyg
    import reqs
    tree = pyg.Tree()
    try:
        cfg = pyg.make_config(tree.root, pyg.FULL_HANDLERS, **{"handlers.dir.DirHandler|cachetime": "0"})
        page = ('<html><body><h1 tal:content="string:page %d">t</h1><p tal:replace="structure dir/footer">f</p>'
                '<div metal:use-macro="dir/lib/macros/box"><b metal:fill-slot="body">filled %d</b></div>'
                '<i tal:replace="structure rdir/shared">s</i></body></html>\n')
        footer = '<address>footer version %d</address>\n'
        macros = '<div metal:define-macro="box" class="box%d"><span metal:define-slot="body">empty</span></div>\n'
        shared = '<em>shared %d <span metal:define-slot="body">slot default of the shared part</span></em>\n'
        # (the shared part lies two directories above the page: the recursive loader climbs all the way)
        files = {"site/sub/deep/page.html.tal": page, "site/sub/deep/footer.html.tal": footer, "site/sub/deep/lib.html.tal": macros, "site/shared.html.tal": shared}
        steps = [(None, 1_700_000_000)] + [(f, t) for f in files for t in (1_700_000_500, 1_700_000_500, 1_600_000_000)]
        version = {f: 0 for f in files}

        def lay(upto):
            for f in files:
                version[f] = 0
            for i, (f, t) in enumerate(steps[:upto + 1]):
                for g in (files if f is None else [f]):
                    version[g] = i + 1
                    body = files[g]
                    tree.write(g, (body % ((version[g],) * body.count("%d"))).encode())
                    os.utime(tree.path(g), (t, t))

        def ask():
            return pyg.request(reqs.build("gopher", "/site/sub/deep/page.html.tal"), cfg, reset=False).out
        pyg.fresh_process_state()
        history = []
        for i in range(len(steps)):
            lay(i)
            history.append(ask())
        for i in range(len(steps)):
            lay(i)
            pyg.fresh_process_state()
            fresh = ask()
            res.evaluations += 1
            res.nontrivial.add(("tal-handler-history", i))
            # (a slot filler belongs to its own use-macro: the template included afterwards shows its slot's default)
            if history[i] != fresh or b"version" not in (fresh or b"") or b"slot default of the shared part" not in (fresh or b"") or (fresh or b"").count(b"filled") != 1:
                res.violation("C17:handler-history", "the TAL handler's answer is not the expansion of the templates as they are now (one server process)",
                              {"step": i, "replaced": steps[i][0], "mtime": steps[i][1]}, observed=(history[i] or b"")[:400], required=(fresh or b"")[:400],
                              replay={"handler_history": True, "step": i})
    finally:
        tree.close()
        pyg.fresh_process_state()


def _walk(ast):
    for n in ast:
        if n[0] == "elem":
            yield n
            yield from _walk(n[4])


def _nested_repeat(ast, inside=False):
    for n in ast:
        if n[0] == "elem":
            here = "repeat" in n[3]
            if here and inside:
                return True
            if _nested_repeat(n[4], inside or here):
                return True
    return False


def replay(data):
    rp = data["violation"]["replay"]
    if rp.get("handler_history"):
        r = Result()
        _handler_histories(None, r)
        print(r.violations[:3])
        return 0
    if rp.get("include"):
        print("templates:", rp["templates"])
        print("page:", rp["page"])
        from simpletal import simpleTALES
        import io
        ctx = simpleTALES.Context(allowPythonPath=0)
        for k, v in talgen.ctxvals().items():
            ctx.addGlobal(k, v)
        for k, v in rp["templates"].items():
            ctx.addGlobal(k, talgen.real_compile(v)[0])
        o = io.StringIO()
        talgen.real_compile(rp["page"])[0].expand(ctx, o)
        print("expansion:", o.getvalue())
        return 0
    if rp.get("metal"):
        import metalgen
        print("library:", rp["library"])
        print("page:", rp["page"])
        print("expansion:", metalgen.real_expand(rp["library"], rp["page"], talgen.ctxvals())[0])
        return 0
    t, prog = talgen.real_compile(rp["template"])
    print("template:", rp["template"])
    print("program:", prog)
    print("expansion:", talgen.real_expand(t, talgen.ctxvals(), rp.get("allow", False)))
    return 0
