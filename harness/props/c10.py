"""C10 — the directory cache is transparent and never older than its lifetime.

History-level correspondence: seeded operation sequences (directory mutations, clock jumps
to both sides of the lifetime, listings through all protocol views) on a real tree with the
clock of pygopherd.handlers.dir substituted and cache-file mtimes set to that clock, vs the
Lean state machine (Model/Cache.run).  Oracle: an explicit statement of the property on the
observed history (each listing shows the directory as it was at some moment less than a
lifetime ago; lifetime 0 => current).
"""
import os
import re

import listing
import pyg
import reqs
from main import Result


class Clock:
    def __init__(self):
        self.ms = 0

    def time(self):
        return self.ms / 1000.0


def set_clock(clock):
    import pygopherd.handlers.dir as d
    if not hasattr(d, "time"):
        pyg.degraded.append("pygopherd.handlers.dir.time")
        return None
    old = d.time
    d.time = clock
    return old


def restore_clock(old):
    import pygopherd.handlers.dir as d
    if old is not None:
        d.time = old


def gen_ops(rng, T, n):
    ops = []
    ver = 0
    for _ in range(n):
        k = rng.random()
        if k < 0.45:
            ops.append(("l", rng.randrange(len(listing.VIEWS))))
        elif k < 0.65:
            ver += 1
            ops.append(("m", ver))
        else:
            Tm = max(T, 1) * 1000
            ms = rng.choice([1, 10, 400, 999, 1000, 1001, Tm - 1001, Tm - 1000, Tm - 999, Tm - 1, Tm, Tm + 1, Tm // 2, 2 * Tm, 37])
            ops.append(("t", max(ms, 1)))
    return ops


def run(ctx):
    res = Result()
    res.rule = ("seeded histories of 12-40 operations (mutate / tick around k*1000 ms and around the lifetime / list through one of 7 protocol "
                "views) for lifetimes {shipped 180, 0, 1, 5}; non-trivial = histories with >= 1 hit, >= 1 expiry and >= 1 mutation between them, "
                "distinct by operation sequence")
    res.assumptions = ["the clock does not go backwards", "writing the cache file takes no time (a writer slower than a second is not modelled)",
                       "cache file mtime is set by the harness to the substituted clock (the kernel would use real time)"]
    rng = ctx.rng
    nhist = ctx.n(40, 600)
    model_lines, checks = [], []
    clock = Clock()
    old = set_clock(clock)
    try:
        for h in range(nhist):
            T = rng.choice([180, 180, 0, 1, 5])
            ops = gen_ops(rng, T, rng.randint(12, 40))
            tree = pyg.Tree()
            try:
                cfg = pyg.make_config(tree.root, **{"handlers.dir.DirHandler|cachetime": str(T)})
                cachefile = cfg.get("handlers.dir.DirHandler", "cachefile")
                tree.write("d/marker-0.txt", b"m")
                tree.write("d/other.txt", b"o")
                tree.write("d/subdir/inner.txt", b"i")
                tree.write("d/page.html", b"<html><head><title>T</title></head></html>")
                # values a cache must give back exactly although they are "falsy": size 0, port 0, empty strings
                tree.write("d/zero-length.txt", b"")
                tree.write("d/.Links", b"Name=an info line from a link file\nType=i\nPath=fake\nHost=(NULL)\nPort=0\n\n"
                                       b"Name=Numbered zero\nType=1\nPath=/elsewhere\nHost=example.org\nPort=70\nNumb=0\n")
                # transparency oracle: the same tree listed with caching off (own cache file name, lifetime 0)
                cfg0 = pyg.make_config(tree.root, **{"handlers.dir.DirHandler|cachetime": "0", "handlers.dir.DirHandler|cachefile": ".cache.verif-fresh"})
                # the whole tree lives on the substituted clock: a realistic epoch, directory and file times included
                BASE = 1_700_000_000_000
                clock.ms = BASE
                inplace = (h % 3 == 1)      # the version is carried by the content of a link file edited in place (directory mtime untouched)
                if inplace:
                    os.unlink(tree.path("d/marker-0.txt"))
                    tree.write("d/.names", b"Path=./other.txt\nName=marker-0 is the name\n")
                for dp, dn, fn in os.walk(tree.root):
                    for x in dn + fn:
                        os.utime(os.path.join(dp, x), (BASE / 1000.0, BASE / 1000.0))
                os.utime(tree.root, (BASE / 1000.0, BASE / 1000.0))
                cur = 0
                hist = [(BASE, 0)]          # (time ms, version) the directory has been in
                outs = []
                for op, arg in ops:
                    if op == "m":
                        now = clock.ms / 1000.0
                        if inplace:
                            with open(tree.path("d/.names"), "r+b") as f_:          # same inode, same directory entry: the directory's mtime stays
                                f_.seek(0)
                                f_.truncate()
                                f_.write(b"Path=./other.txt\nName=marker-%d is the name\n" % arg)
                            os.utime(tree.path("d/.names"), (now, now))
                        else:
                            os.rename(tree.path("d/marker-%d.txt" % cur), tree.path("d/marker-%d.txt" % arg))
                            os.utime(tree.path("d"), (now, now))
                        cur = arg
                        hist.append((clock.ms, cur))
                    elif op == "t":
                        clock.ms += arg
                    else:
                        view, gplus = listing.VIEWS[arg]
                        cpath = tree.path("d/" + cachefile)
                        before = os.stat(cpath).st_mtime_ns if os.path.exists(cpath) else None
                        rows, r = listing.real_rows(view, gplus, cfg, "/d")
                        res.evaluations += 1
                        after = os.stat(cpath).st_mtime_ns if os.path.exists(cpath) else None
                        if after is not None and after != before:
                            os.utime(cpath, (clock.ms / 1000.0, clock.ms / 1000.0))   # the kernel stamped real time
                            if before is None:
                                # creating the cache file is a write to the directory: its mtime is the same moment
                                os.utime(tree.path("d"), (clock.ms / 1000.0, clock.ms / 1000.0))
                        m = re.search(rb"marker-(\d+)", rows or b"")
                        v = int(m.group(1)) if m else None
                        fresh_rows, _fr = listing.real_rows(view, gplus, cfg0, "/d")
                        norm = lambda b: re.sub(rb"marker-\d+", b"marker-N", b or b"")   # noqa: E731
                        if v is not None and norm(rows) != norm(fresh_rows):
                            res.violation("C10:cached-listing-differs:" + view, "a listing served through the cache differs from the listing generated without it "
                                          "(apart from the directory version it shows)", {"lifetime": T, "ops": ops, "at_ms": clock.ms, "view": view, "gplus": gplus},
                                          observed=norm(rows)[:600], required=norm(fresh_rows)[:600], replay={"lifetime": T, "ops": ops})
                        outs.append((clock.ms - BASE, v, view))
                        # oracle: v is the version the directory had at some t with now - t < T (or now)
                        ok = v == cur
                        if not ok and v is not None:
                            for i, (t0, ver) in enumerate(hist):
                                t1 = hist[i + 1][0] if i + 1 < len(hist) else clock.ms
                                if ver == v and clock.ms - t1 < T * 1000:
                                    ok = True
                        inp = {"lifetime": T, "ops": ops, "at_ms": clock.ms, "view": view}
                        rp = {"lifetime": T, "ops": ops}
                        if v is None:
                            res.violation("C10:no-listing", "listing failed during a cache history", inp, observed=(r.out or b"")[:100], required="listing", replay=rp)
                        elif not ok:
                            res.violation("C10:stale-beyond-lifetime" if T else "C10:lifetime-zero-stale",
                                          "a listing shows the directory as it was longer ago than the cache lifetime", inp,
                                          observed={"version": v, "history": hist[-6:]}, required=f"a version current within {T}s", replay=rp)
                enc = " ".join(("l" if o == "l" else o + str(a)) for o, a in ops)
                model_lines.append(f"cacherun\t{T}\t{enc}")
                checks.append(({"lifetime": T, "ops": enc}, [(t, v) for t, v, _ in outs]))
                # non-trivial: a hit, an expiry and a mutation between
                vs = [v for _, v, _ in outs]
                if len(outs) >= 3 and any(a == b for a, b in zip(vs, vs[1:])) and len(set(vs)) >= 2:
                    res.nontrivial.add(enc)
            finally:
                tree.close()
    finally:
        restore_clock(old)
    outsm = ctx.driver.run(model_lines)
    for (inp, impl), o in zip(checks, outsm):
        res.evaluations += 1
        model = [(int(x.split(":")[0]), int(x.split(":")[1])) for x in o.split(" ") if x]
        if model != impl:
            res.disagree("C10.history", inp, model, impl)
    if checks:
        res.sample({"history": checks[0][0], "listings(time_ms, version)": checks[0][1]})
        res.sample({"history": checks[-1][0], "listings(time_ms, version)": checks[-1][1]})
    res.degraded = sorted(set(pyg.degraded))
    _aliases(ctx, res)
    return res


def replay(data):
    print(data["violation"]["replay"])
    return 0


def _aliases(ctx, res):
    """One directory reachable under several selectors (a link to itself inside it, a sibling link): a listing cached through one
    selector is not served for another -- each listing is the one a server without a cache gives for that selector."""
    import os
    import listing
    tree = pyg.Tree()
    try:
        for n in ("alpha.txt", "beta.txt", "sub/x.txt"):
            tree.write("docs/" + n, b"x\n")
        tree.write("mailonly/box.mbox", b"From a@b Sat Jan  5 09:43:01 2002\nSubject: one\n\nbody\n\n")
        os.symlink(".", tree.path("docs/current"))
        os.symlink("docs", tree.path("alias"))
        os.symlink("mailonly", tree.path("mailalias"))
        cfg_c = pyg.make_config(tree.root)                                      # shipped lifetime
        cfg_0 = pyg.make_config(tree.root, **{"handlers.dir.DirHandler|cachetime": "0"})
        order = ["/docs/current", "/docs", "/alias", "/docs", "/docs/current/current", "/docs/current", "/mailalias", "/mailonly", "/mailalias"]
        cachefile = cfg_c.get("handlers.dir.DirHandler", "cachefile")
        for sel in order:
            got = listing.real_rows("gopher", False, cfg_c, sel)[0]
            # what a server without a cache says (the cache files put aside while it is asked)
            saved = {}
            for dp, dn, fn in os.walk(tree.root):
                if cachefile.encode() in [os.fsencode(f) for f in fn]:
                    pth = os.path.join(dp, os.fsencode(cachefile) if isinstance(dp, bytes) else cachefile)
                    saved[pth] = (open(pth, "rb").read(), os.stat(pth))
                    os.unlink(pth)
            want = listing.real_rows("gopher", False, cfg_0, sel)[0]
            for dp, dn, fn in os.walk(tree.root):
                for f in fn:
                    if os.fsdecode(f) == cachefile:
                        os.unlink(os.path.join(dp, f))
            for pth, (data, st) in saved.items():
                with open(pth, "wb") as fh:
                    fh.write(data)
                os.utime(pth, ns=(st.st_atime_ns, st.st_mtime_ns))
            res.evaluations += 1
            res.nontrivial.add(("alias", sel))
            if got != want:
                res.violation("C10:cache-served-for-another-selector", "a listing cached through one selector of a directory is served for another",
                              {"selector": sel, "asked_before": order[:order.index(sel)]}, observed=(got or b"")[:300], required=(want or b"")[:300],
                              replay={"alias": True, "selector": sel})
    finally:
        tree.close()
