"""C01 — nothing outside the document root is read, listed, run or revealed.

Correspondence: (a) BaseHandler.isrequestsecure / HTMLURLHandler.isrequestsecure vs the
model's secureB / urlSecureB (exhaustive short strings + seeded long ones); (b) unquote,
slashnormalize, Virtual split vs the model; (c) the selector the real handler saw for
requests in every syntax vs the model's parse (Model/Proto) — added with the Proto model.
Oracle: two worlds that differ only outside the root and in cwd -> byte-equal responses;
every audited open/listdir/scandir/Popen/mkdir path lies under the root; hostile catalogue
answered not-found.
"""
import itertools
import os
import re
import sys
import urllib.parse

import pyg
import reqs
import trees
from leanio import enc_str, dec_str, dec_opt
from main import Result

ALPHA = [".", "/", "\\", "\0", "a"]
LONG_ALPHA = ["a", ".", "/", "\\", "\0", "%", "2", "e", "f", "5", "c", "0", " ", "\t", "?", "|",
              "\xe9", "\udcff", "U", "R", "L", ":", "\n", '"', "\r"]

HOSTILE = [
    "/../secret.txt", "/..", "/docs/../../secret.txt", "/docs/..", "..", "../secret.txt",
    "//secret.txt", "/docs//a.txt", "/docs/./a.txt", "/./README", "/.\\secret.txt",
    "/docs\\\\..\\\\secret.txt", "\\\\..\\\\secret.txt", "/README\0", "/a\0b", "/docs/..\0",
    "/README|/../../secret.txt", "/README?/../../secret.txt", "/mail/box.mbox|/MBOX-MESSAGE/../1",
    "/arch.zip/../secret.txt", "/arch.zip/../../secret.txt", "/arch.zip//inside.txt",
    "/arch.zip/zd/../../../secret.txt", "/docs/.../a.txt", "/docs/sub/../../../secret.txt",
    "/hello.pyg|/../x", "/script.sh|../../secret.txt", "/1/../secret.txt",
    # names the kernel refuses for their length (ENAMETOOLONG, not ENOENT) below a directory that exists in one world only,
    # and names below a regular file (ENOTDIR), a dangling link and a link loop outside the root
    "/../private/" + "x" * 300, "/docs/../../private/" + "y" * 256, "/../private/sub/" + "z" * 4200, "/../secret.txt/below",
    "/../private|/MAILDIR-MESSAGE/1", "/..|/MAILDIR-MESSAGE/1", "/..?", "/../private/" + "x" * 300 + "|/MBOX-MESSAGE/1",
    # characters that compatibility normalisation (NFKC) or case folding turns into dots and slashes: they are names, not separators
    "/\u2025/secret.txt", "/\uff0e\uff0e/secret.txt", "/\u2024\u2024/secret.txt", "/..\uff0fsecret.txt", "/docs/\u2025/\u2025/secret.txt",
    "/\u2025|/MAILDIR-MESSAGE/1", "/\ufe52\ufe52/secret.txt", "/\u2215../secret.txt",
]


def _handler_secure(sel):
    from pygopherd.handlers.base import BaseHandler
    return bool(BaseHandler(sel, None, None, None, None, vfs=object()).isrequestsecure())


def _url_secure(sel):
    from pygopherd.handlers.url import HTMLURLHandler
    return bool(HTMLURLHandler(sel, None, None, None, None, vfs=object()).isrequestsecure())


def _rand_str(rng, alpha, lo, hi):
    return "".join(rng.choice(alpha) for _ in range(rng.randint(lo, hi)))


def correspond(ctx, res):
    cases = []  # (op, arg, impl value)
    # (a) exhaustive short strings, embedded
    for n in (1, 2, 3):
        for t in itertools.product(ALPHA, repeat=n):
            s = "/a" + "".join(t) + "a"
            cases.append(("secure", s, _handler_secure(s)))
    n_long = ctx.n(1500, 40000)
    for _ in range(n_long):
        s = _rand_str(ctx.rng, LONG_ALPHA, 0, 24)
        cases.append(("secure", s, _handler_secure(s)))
        u = ctx.rng.choice(["URL:", "/URL:", "URL", "/xURL:", ""]) + ctx.rng.choice(["http://", "x://", ":/", "", "\n://", "a\n://"]) + s
        cases.append(("urlsecure", u, _url_secure(u)))
    # (b) unit functions
    from pygopherd.protocols.base import BaseGopherProtocol
    sn = BaseGopherProtocol.slashnormalize
    from pygopherd.handlers.virtual import Virtual

    class _V:
        def stat(self, s):
            raise OSError()
    for _ in range(ctx.n(1500, 40000)):
        s = _rand_str(ctx.rng, LONG_ALPHA + ["%", "%", "4", "1", "d", "C", "3", "A", "9"], 0, 20)
        cases.append(("unquote", s, urllib.parse.unquote(s, errors="surrogateescape")))
        cases.append(("slashnorm", s, sn(None, s)))
        v = Virtual(s, None, None, None, None, vfs=_V())
        cases.append(("vsplit", s, (v.selectorreal, v.selectorargs)))
        bs = bytes(ctx.rng.randrange(256) for _ in range(ctx.rng.randint(0, 12)))
        cases.append(("decode", bs, bs.decode("utf-8", "surrogateescape")))
        cases.append(("quotebytes", bs, urllib.parse.quote_from_bytes(bs)))
    lines = [f"{op}\t{enc_str(arg)}" for op, arg, _ in cases]
    outs = ctx.driver.run(lines)
    for (op, arg, impl), o in zip(cases, outs):
        res.evaluations += 1
        if op in ("secure", "urlsecure"):
            model = o == "T"
            branch = f"{op}:{'accept' if impl else 'reject'}"
            if impl or any(x in arg for x in ("..", "./", "//", "\\", "\0")):
                res.nontrivial.add((op, arg))
        elif op == "vsplit":
            a, b = o.split("\t")
            model = (dec_str(a), dec_str(b))
            branch = "vsplit:" + ("?" if "?" in arg else "|" if "|" in arg else "plain")
            if "?" in arg or "|" in arg:
                res.nontrivial.add((op, arg))
        else:
            model = dec_str(o)
            branch = op + (":changed" if model != (arg if isinstance(arg, str) else None) else ":same")
            if model != arg:
                res.nontrivial.add((op, arg))
        res.count(branch)
        if model != impl:
            res.disagree(f"C01.{op}", arg, model, impl)
    res.sample({"correspondence": "secure", "input": "/a..a", "impl": _handler_secure("/a..a")})
    # (c) the selector each protocol hands to the handlers, vs Model/Proto.parseRequest
    import corr_parse
    corr_parse.run(ctx, res, ctx.n(1500, 30000), "C01")


def kernel_correspond(ctx, res):
    """Model/Site.kstat (the kernel's resolution of root + selector on a whole file-system tree, `..` included) vs
    os.stat / os.listdir / open on a real tree; then the whole-site model vs the real server (sitecorr)."""
    import stat as st_mod
    import sitecorr
    rng = ctx.rng
    tree = pyg.Tree()
    try:
        T = tree.tmp
        recs = []

        def w(rel, data=None):
            p = os.path.join(T, rel)
            if data is None:
                os.makedirs(p, exist_ok=True)
                recs.append(("/T/" + rel, "d", b""))
            else:
                os.makedirs(os.path.dirname(p), exist_ok=True)
                with open(p, "wb") as f:
                    f.write(data)
                recs.append(("/T/" + rel, "f", data))
        os.rmdir(tree.root)
        w("secret.txt", b"TOP")
        w("a", None)
        w("a/side.txt", b"side")
        w("a/b", None)
        w("a/b/root", None)
        w("a/b/rootx", None)            # a sibling whose name extends the root's
        w("a/b/rootx/f", b"sib")
        w("a/b/root/README", b"hello")
        w("a/b/root/docs", None)
        w("a/b/root/docs/a.txt", b"doc a")
        w("a/b/root/docs/sub", None)
        w("a/b/root/docs/sub/deep.txt", b"deep")
        w("a/b/root/a..b", b"dots")
        w("a/b/root/sp ace", None)
        w("a/b/root/sp ace/x", b"x")
        root_real = os.path.join(T, "a/b/root")
        root_model = "/T/a/b/root"
        pool = ["..", ".", "", "docs", "sub", "README", "a.txt", "deep.txt", "a..b", "sp ace", "x", "nope", "side.txt", "secret.txt", "b", "a", "root", "rootx", "f", "..."]
        queries = ["/", "/..", "/../..", "/../../..", "/../../../secret.txt", "/../../side.txt", "/docs/../README", "/docs/sub/../../README", "/README/", "/README/x",
                   "/docs/", "/docs//a.txt", "/./docs/./a.txt", "/../rootx/f", "/../root/README", "x/f", "/a..b", "/docs/.../a.txt"]
        kidsof = {}
        for p_, k, _d in recs:
            parent, name = p_.rsplit("/", 1)
            kidsof.setdefault(parent, []).append(name)
        for _ in range(ctx.n(300, 5000)):
            # a mostly valid random walk: down into existing members, up with '..', with '.', '' and unknown names mixed in
            pos = ["T", "a", "b", "root"]
            comps = []
            for _step in range(rng.randint(1, 7)):
                r_ = rng.random()
                here = kidsof.get("/" + "/".join(pos), [])
                if r_ < 0.5 and here:
                    c = rng.choice(here)
                    pos.append(c)
                elif r_ < 0.75 and len(pos) > 1:
                    c = ".."
                    pos.pop()
                elif r_ < 0.85:
                    c = rng.choice([".", ""])
                else:
                    c = rng.choice(pool)
                    pos.append(c)
                comps.append(c)
            queries.append(rng.choice(["/", "/", "/", ""]) + "/".join(comps) + rng.choice(["", "", "/"]))
        keep = []
        for q in queries:
            # stay inside T: the model's "/" holds T only, the real one holds the machine.  Depth is counted on the whole
            # path root + selector (a selector without a leading slash extends the root's last component)
            ok, d = True, 0
            for c in (root_model + q).split("/"):
                if c == "..":
                    d -= 1
                elif c not in ("", "."):
                    d += 1
                if d < 1 and c not in ("",):
                    ok = False
            if ok and "\0" not in q:
                keep.append(q)
        line = "\t".join(["kstat", " ".join(";".join([enc_str(p_), k, enc_str(d_.decode("latin-1")) if d_ else "-"]) for p_, k, d_ in recs),
                          enc_str(root_model), ",".join(enc_str(q) for q in keep)])
        outs = ctx.driver.run([line])[0].split(" ")
        for q, o in zip(keep, outs):
            res.evaluations += 1
            p = root_real + q
            if p.endswith("/"):
                p = p[:-1]
            try:
                s_ = os.stat(p)
                if st_mod.S_ISDIR(s_.st_mode):
                    real = "d:" + ",".join(sorted(enc_str(x) for x in os.listdir(p))) if os.listdir(p) else "d:~"
                elif st_mod.S_ISREG(s_.st_mode):
                    data = open(p, "rb").read()
                    real = "f:" + (enc_str(data.decode("latin-1")) if data else "-")
                else:
                    real = "o"
            except OSError:
                real = "-"
            model = o
            if o.startswith("d:") and o != "d:~":
                model = "d:" + ",".join(sorted(o[2:].split(",")))
            res.count("kstat:" + ("climbs" if ".." in q.split("/") else "plain") + ":" + real[:1])
            if ".." in q.split("/") and real != "-":
                res.nontrivial.add(("kstat", q))
            if model != real:
                res.disagree("C01.kernel-resolution", {"root": "<T>/a/b/root", "selector": q}, model, real)
    finally:
        tree.close()
    sitecorr.compare(ctx, res, ctx.n(3, 40), "C01")


ALLOWED_PREFIXES = None


def _allowed(path, root):
    global ALLOWED_PREFIXES
    if ALLOWED_PREFIXES is None:
        ALLOWED_PREFIXES = [os.path.realpath(p) for p in
                            {sys.prefix, sys.base_prefix, sys.exec_prefix, pyg.REPO, "/usr/lib", "/usr/local/lib",
                             "/venv", os.path.dirname(os.__file__)}]
    p = pyg.fsdecode(path) if not isinstance(path, str) else path
    if not os.path.isabs(p):
        return False, p
    rp = os.path.realpath(p)
    rr = os.path.realpath(root)
    if rp == rr or rp.startswith(rr + "/"):
        return True, rp
    if rp in ("/dev/null", "/dev/urandom"):
        return True, rp
    for a in ALLOWED_PREFIXES:
        if rp == a or rp.startswith(a + "/"):
            return True, rp
    return False, rp


def _plant(tree, world):
    """State of the world outside the root."""
    sib = os.path.basename(tree.root)
    for name in ("secret.txt", "secret.txt.abstract", "secret.txt.keywords", "etc-passwd", sib + "URL:mailto:a", sib + "URL:mailto:a.abstract"):
        p = os.path.join(tree.tmp, name)
        if os.path.exists(p):
            os.unlink(p)
    if world == "A":
        # siblings of the root whose names extend the root's own name (root + "URL:..." without a separator)
        tree.outside(sib + "URL:mailto:a", b"SIBLING-SECRET-A\n")
        tree.outside(sib + "URL:mailto:a.abstract", b"SIBLING-SECRET-ABSTRACT-A\n")
        tree.outside("secret.txt", b"TOP-SECRET-A\n")
        tree.outside("secret.txt.abstract", b"SECRET-ABSTRACT-A\n")
        tree.outside("secret.txt.keywords", b"SECRET-KEYWORDS-A\n")
    # a directory beside the root (with a Maildir in it), in one world only
    import shutil as _sh
    _sh.rmtree(os.path.join(tree.tmp, "private"), ignore_errors=True)
    if world == "A":
        for sub in ("private/sub", "private/new", "private/cur", "private/tmp"):
            os.makedirs(os.path.join(tree.tmp, sub), exist_ok=True)
        tree.outside("private/new/1", b"Subject: SECRET mail outside the root\n\nTOP-SECRET-A\n")
        tree.outside("outside-tpl.html.tal", b"<b>TOP-SECRET-A template outside the root</b>")
    else:
        for nm in ("outside-tpl.html.tal",):
            if os.path.exists(os.path.join(tree.tmp, nm)):
                os.unlink(os.path.join(tree.tmp, nm))
    if world == "A":
        pass
    cwd = os.path.join(tree.tmp, "cwd" + world)
    os.makedirs(cwd, exist_ok=True)
    if world == "A":
        with open(os.path.join(cwd, "box.mbox"), "wb") as f:
            f.write(trees.MBOX.replace(b"first message", b"CWD-DECOY-A"))
        with open(os.path.join(cwd, "inside.txt"), "wb") as f:
            f.write(b"CWD-DECOY-A")
        with open(os.path.join(cwd, "README"), "wb") as f:
            f.write(b"CWD-DECOY-A")
        # files at the same relative paths as archive members (an archive-internal name used as a file name is relative to the cwd)
        os.makedirs(os.path.join(cwd, "zd"), exist_ok=True)
        with open(os.path.join(cwd, "zd", "page.html"), "wb") as f:
            f.write(b"<html><head><title>CWD-DECOY-A title</title></head></html>")
        with open(os.path.join(cwd, "zd", "nested.txt"), "wb") as f:
            f.write(b"CWD-DECOY-A")
        # programs at the relative paths of archive members that are recorded as executable
        os.makedirs(os.path.join(cwd, "tools"), exist_ok=True)
        for nm, body in (("tools/report.sh", b"#!/bin/sh\necho CWD-DECOY-A\n"), ("tools/gen.pyg", trees.PYG_SRC.replace('"pyg:"', '"CWD-DECOY-A:"').encode()),
                         ("run.pyg", b"CWD-DECOY-A")):
            with open(os.path.join(cwd, nm), "wb") as f:
                f.write(body)
            os.chmod(os.path.join(cwd, nm), 0o755)
    return cwd


def _snapshot_outside(tree):
    out = []
    for dp, dn, fn in os.walk(tree.tmp):
        if dp == tree.root or dp.startswith(tree.root + "/"):
            dn[:] = []
            continue
        for x in dn + fn:
            out.append(os.path.join(dp, x))
    return sorted(out)


def oracle(ctx, res):
    for listname in ("shipped", "full"):
        tree = pyg.Tree()
        try:
            objs = trees.standard(tree)
            kw = {"handlers.dir.DirHandler|cachetime": "0"}
            if listname == "full":
                objs = objs + trees.add_full_list_content(tree)
                os.chmod(tree.path("hello.pyg"), 0o755)
                kw["handlers.ZIP.ZIPHandler|enabled"] = "true"
                handlers = pyg.FULL_HANDLERS
                # an archive inside an archive (whatever the server makes of it, it makes it below the root: an archive's own
                # index file is named after the archive, and an archive-internal name is not a path of the file system)
                import io
                import zipfile
                inner = io.BytesIO()
                with zipfile.ZipFile(inner, "w") as z:
                    z.writestr("in.txt", b"inside the inner archive\n")
                    z.writestr("deep/er.txt", b"deeper\n")
                with zipfile.ZipFile(os.fsdecode(tree.path("nest.zip")), "w") as z:
                    z.writestr("inner.zip", inner.getvalue())
                    z.writestr("sub/inner2.zip", inner.getvalue())
                    z.writestr("plain.txt", b"plain member\n")
                objs = objs + [("/nest.zip", "dir"), ("/nest.zip/plain.txt", "file"), ("/nest.zip/inner.zip", "file"), ("/nest.zip/inner.zip/in.txt", "file"),
                               ("/nest.zip/sub/inner2.zip/deep/er.txt", "file"), ("/nest.zip/inner.zip/deep", "dir")]
            else:
                handlers = None
            cfg = pyg.make_config(tree.root, handlers, **kw)
            rng = ctx.rng
            sels = [(s, "hostile") for s in HOSTILE]
            good = [s for s, _ in objs]
            for s in good:
                sels.append((s, "valid"))
                sels.append((s + "/", "valid"))
            nmut = ctx.n(40, 1500)
            for _ in range(nmut):
                s = rng.choice(good)
                k = rng.randrange(5)
                if k == 0:
                    i = rng.randrange(len(s) + 1)
                    s = s[:i] + rng.choice(["..", "/", "./", "\\", "\0", "../", "/..", "%2e%2e", "|", "?"]) + s[i:]
                elif k == 1:
                    s = s + rng.choice(["/../secret.txt", "/..", "|/../secret.txt", "?../x", "/../../secret.txt.abstract"])
                elif k == 2:
                    s = rng.choice(["/..", "..", "/.", "//", "\\\\.."]) + s
                elif k == 3:
                    s = s + rng.choice([".abstract", "/.cap/x", "/gophermap", "/.cache.pygopherd.dir", "|/MBOX-MESSAGE/1"])
                else:
                    s = "/" + _rand_str(rng, LONG_ALPHA, 1, 10)
                sels.append((s, "mutated"))
            protos = ["gopher", "gopherp", "http", "wap", "gemini", "spartan", "sgopher", "https"]
            reqlist = []
            for s, kind in sels:
                for p in protos:
                    if kind == "mutated" and rng.random() < 0.6:
                        continue
                    layer_opts = [1] if p in ("gopher", "gopherp", "sgopher") else ([0, 1, 2] if kind == "hostile" else [1])
                    for layers in layer_opts:
                        if layers == 0 and any(c in s for c in " \t\r\n"):
                            continue
                        if layers == 0 and p == "spartan" and any(ord(c) > 127 for c in s):
                            continue        # a Spartan request line is ASCII: raw non-ASCII bytes are not a Spartan request
                        gp = rng.choice(["+", "!", "$"]) if p == "gopherp" else "+"
                        try:
                            rq = reqs.build(p, s, layers=layers, gplus=gp)
                        except UnicodeError:
                            continue
                        if b"\n" in rq.split(b"\r\n")[0]:
                            continue
                        reqlist.append((p, s, kind, layers, rq))
            if listname == "full":
                # a template that takes a path step from the request (a variable step is one step, whatever it holds)
                tree.write("vars.html.tal", b'<html><body><ul tal:define="section protocol/searchrequest"><li tal:repeat="n root/?section/getchildrennames" tal:content="n">n</li></ul>'
                                            b'<p tal:content="structure root/?section/outside-tpl | string:none">t</p></body></html>\n')
                for srch in (b"docs", b"..", b"../private", b"docs/../..", b"docs/../../private", b"/", b"../private/new", b"."):
                    reqlist.append(("gopher", "/vars.html.tal", "valid", 1, b"/vars.html.tal\t" + srch + b"\r\n"))
                    reqlist.append(("http", "/vars.html.tal", "valid", 1, b"GET /vars.html.tal?searchrequest=" + srch.replace(b"/", b"%2F") + b" HTTP/1.0\r\n\r\n"))
                    reqlist.append(("spartan", "/vars.html.tal", "valid", 1, b"h /vars.html.tal %d\r\n" % len(srch) + srch))
            cwds = {}
            for (p, s, kind, layers, rq) in reqlist:
                outs = {}
                for world in ("A", "B"):
                    cwds[world] = _plant(tree, world)
                    before = _snapshot_outside(tree)
                    wf = None
                    if listname == "full":
                        wpath = os.path.join(tree.tmp, "wfile.out")
                        wf = open(wpath, "wb", buffering=0)
                        before.append(wpath)
                        before.sort()
                    try:
                        with pyg.audit() as ev:
                            r = pyg.request(rq, cfg, tls=reqs.TLS[p], cwd=cwds[world], wfile=wf)
                    finally:
                        if wf is not None:
                            wf.close()
                            r_out = open(wpath, "rb").read()
                    if wf is not None:
                        r.out = r_out
                    outs[world] = r
                    res.evaluations += 1
                    after = _snapshot_outside(tree)
                    if wf is not None:
                        os.unlink(wpath)
                        before.remove(wpath)
                        after.remove(wpath)
                    if after != before:
                        new = sorted(set(after) ^ set(before))
                        res.violation(_key("created-outside", r, s), "file system outside the root was modified by a request",
                                      _inp(listname, p, s, layers, rq, world), observed=new[:5], required="no change outside the root",
                                      replay=_rp(listname, p, s, layers, rq))
                        for x in new:
                            if os.path.isdir(x):
                                import shutil
                                shutil.rmtree(x, ignore_errors=True)
                            elif os.path.exists(x):
                                os.unlink(x)
                    for e, a0 in ev:
                        if isinstance(a0, (list, tuple)):
                            a0 = a0[0] if a0 else ""
                        if isinstance(a0, int):
                            continue
                        ok, rp = _allowed(a0, tree.root)
                        if e == "subprocess.Popen":
                            ok2, rp = _allowed(a0, tree.root)
                            ok = ok2
                        if not ok:
                            res.violation(_key("outside-" + e, r, s), f"{e} outside the document root",
                                          _inp(listname, p, s, layers, rq, world), observed=rp,
                                          required="every opened/listed/executed path lies under the root",
                                          replay=_rp(listname, p, s, layers, rq))
                a, b = outs["A"], outs["B"]
                # the two requests are made at different times: a directory's own time stamp (it changes when a cache file is
                # rewritten in it) may fall on either side of a second boundary; everything else must be byte-identical
                tmask = lambda x: re.sub(rb"(Last-Modified: |Mod-Date: )[^\r\n]*", rb"\1T", x or b"")  # noqa
                if tmask(a.out) != tmask(b.out):
                    res.violation(_key("interference", a, s), "response depends on the world outside the root / cwd",
                                  _inp(listname, p, s, layers, rq, "A/B"),
                                  observed={"A": a.out[:200], "B": b.out[:200]}, required="byte-identical responses",
                                  replay=_rp(listname, p, s, layers, rq))
                for w, r in outs.items():
                    if r.out and (b"SECRET" in r.out or b"DECOY" in r.out):
                        res.violation(_key("revealed", r, s), "content from outside the root in a response",
                                      _inp(listname, p, s, layers, rq, w), observed=r.out[:300],
                                      required="nothing outside the root is revealed", replay=_rp(listname, p, s, layers, rq))
                cls, _ = reqs.classify(p, a.out)
                res.count(f"{listname}:{p}:{kind}:{cls}")
                if kind == "hostile":
                    res.nontrivial.add((listname, p, s, layers))
                    # what the handler must judge: the selector after exactly one decoding layer
                    url = p not in ("gopher", "gopherp", "sgopher")
                    exp_hostile = (layers == 1 or not url) or (layers == 0 and not any(c in s for c in "?#"))
                    if exp_hostile and cls != "notfound":
                        res.violation(_key("hostile-not-notfound:" + (a.exc and type(a.exc).__name__ or cls), a, s),
                                      "a climbing selector is not answered as not-found",
                                      _inp(listname, p, s, layers, rq, "A"),
                                      observed={"class": cls, "first": a.out[:80], "exception": repr(a.exc)},
                                      required="the protocol's not-found response", replay=_rp(listname, p, s, layers, rq))
                elif kind == "valid" and cls == "ok":
                    res.nontrivial.add((listname, p, s))
            res.sample({"oracle": "two-world", "handlers": listname, "request": reqlist[0][4], "class": "see distribution"})
            res.sample({"oracle": "two-world", "handlers": listname, "request": reqlist[len(reqlist) // 2][4]})
        finally:
            tree.close()


def _kind_of(sel):
    if "\0" in sel:
        return "nul"
    if ".zip" in sel:
        return "zip"
    return "path"


def _key(what, r, sel):
    # signature of the failing input class: what + handler that answered + selector class
    return f"C01:{what}:{r.handler or 'nohandler'}:{_kind_of(sel)}"


def _inp(listname, p, s, layers, rq, world):
    return {"handlers": listname, "protocol": p, "selector": s, "layers": layers, "request": rq, "world": world}


def _rp(listname, p, s, layers, rq):
    return {"handlers": listname, "protocol": p, "request_latin1": rq.decode("latin-1"), "tls": reqs.TLS[p]}


def forced_state_interleavings(ctx, res):
    """Shared module-level state as another thread of the threading server sees it, forced on the real code: a benign
    request A is pre-empted at the k-th executed line inside the functions that write module-level names (`global`
    declarations, found by reading the source), a climbing request H runs to completion there, A goes on, and H is
    asked again (twice).  Every answer to H must be the not-found answer it gets alone, with nothing from outside."""
    import sys
    from props import c14
    lazy = c14.lazy_functions()
    tree = pyg.Tree()
    try:
        trees.standard(tree, hostile_content=False)
        tree.outside("secret.txt", b"TOP-SECRET-A\n")
        cfg = pyg.make_config(tree.root, **{"handlers.dir.DirHandler|cachetime": "0"})
        # (requests claimed by the first, by a middle and by the last handler of the list: what stays behind in shared state
        #  depends on which call was the request's last)
        benign = [reqs.build("gopher", "/map"), reqs.build("http", "/docs"), reqs.build("gopher", "/README"), reqs.build("gopherp", "/docs/a.txt", gplus="!")]
        hostile = [(reqs.build("gopher", "/../secret.txt"), False), (reqs.build("http", "/../secret.txt", layers=1), False),
                   (reqs.build("gopherp", "/docs/../../secret.txt", gplus="+"), False), (reqs.build("gemini", "/../secret.txt", layers=1), True)]
        if ctx.tier == "quick":
            benign, hostile = benign[:2], [hostile[0], hostile[ctx.rng.randrange(1, 4)]]
        for pa in benign:
            for ph, htls in hostile:
                pyg.reset_globals()
                alone = pyg.request(ph, cfg, tls=htls, reset=False).out

                def run_at(k):
                    state = {"n": 0, "h": None, "fired": False, "where": []}

                    def local(frame, event, arg):
                        if event == "line":
                            state["n"] += 1
                            state["where"].append((frame.f_code.co_filename, frame.f_code.co_name, frame.f_lineno))
                            if state["n"] == k and not state["fired"]:
                                state["fired"] = True
                                sys.settrace(None)
                                try:
                                    state["h"] = pyg.request(ph, cfg, tls=htls, reset=False)
                                finally:
                                    sys.settrace(tracer)
                        return local

                    def tracer(frame, event, arg):
                        key = (os.path.realpath(frame.f_code.co_filename), frame.f_code.co_name)
                        if event == "call" and key in lazy:
                            return local
                        return None
                    pyg.reset_globals()
                    sys.settrace(tracer)
                    try:
                        ra = pyg.request(pa, cfg, reset=False)
                    finally:
                        sys.settrace(None)
                    later = [pyg.request(ph, cfg, tls=htls, reset=False) for _ in range(2)]
                    return ra, state, later
                _r, st0, _l = run_at(-1)
                total = st0["n"]
                res.count("state-preemption-points", total)
                # every source line of these functions, at its first and at its last execution within the request (what is left
                # behind in shared state is what the *last* writer left), plus seeded other positions
                first, last = {}, {}
                for i_, w_ in enumerate(st0["where"], 1):
                    first.setdefault(w_, i_)
                    last[w_] = i_
                must = set(first.values()) | set(last.values())
                rest = [k_ for k_ in range(1, total + 1) if k_ not in must]
                cap = ctx.n(10, 400)
                ks = sorted(must | set(ctx.rng.sample(rest, min(cap, len(rest)))))
                for k in ks:
                    ra, st_, later = run_at(k)
                    res.evaluations += 4
                    if not st_["fired"]:
                        continue
                    res.nontrivial.add(("state-interleaving", pa[:30], ph[:30], k))
                    for who, r in [("H while A was inside", st_["h"])] + [("H afterwards", x) for x in later]:
                        out = (r.out or b"") if r is not None else b""
                        if r is None or b"SECRET" in out or out != alone:
                            res.violation("C01:revealed:state-interleaving" if b"SECRET" in out else "C01:interference:state-interleaving",
                                          "a climbing request served while another request was inside a function that writes shared state is not refused as it is alone",
                                          {"benign": pa[:80], "hostile": ph[:80], "preempted_at_line_event": k, "of": total, "who": who},
                                          observed=out[:200], required=(alone or b"")[:200],
                                          replay={"state_interleaving": True, "k": k, "a": pa.decode("latin-1"), "h": ph.decode("latin-1"), "tls": htls})
    finally:
        sys.settrace(None)
        tree.close()
        pyg.reset_globals()


def run(ctx):
    res = Result()
    res.rule = ("correspondence: 155 exhaustive strings over {. / \\ NUL a} + seeded strings; unit functions "
                "unquote/slashnormalize/virtual split/decode/quote vs CPython; oracle: two-world requests "
                "(valid, hostile catalogue with 0-2 encoding layers, mutated) x 8 protocol syntaxes x "
                "{shipped, full} handler lists. non-trivial = filter cases with a rejected-literal or accepted "
                "verdict / unit cases where the function is not the identity / hostile requests and valid "
                "requests answered ok, distinct by (list, protocol, selector)")
    res.assumptions = [
        "kernel path resolution of the byte path agrees with lexical normalisation when no symlink leaves the root",
        "os.stat outside the root before the filter runs is not an open/list/exec and does not influence the response",
        "audit hook sees every open/listdir/scandir/Popen/mkdir made through the Python runtime",
    ]
    correspond(ctx, res)
    kernel_correspond(ctx, res)
    forced_state_interleavings(ctx, res)
    oracle(ctx, res)
    res.degraded = list(pyg.degraded)
    return res


def _replay_state_interleaving(rp):
    """benign request A pre-empted at its k-th traced line by the climbing request H; then H twice more"""
    import sys
    from props import c14
    lazy = c14.lazy_functions()
    tree = pyg.Tree()
    try:
        trees.standard(tree, hostile_content=False)
        tree.outside("secret.txt", b"TOP-SECRET-A\n")
        cfg = pyg.make_config(tree.root, **{"handlers.dir.DirHandler|cachetime": "0"})
        pa, ph, k = rp["a"].encode("latin-1"), rp["h"].encode("latin-1"), rp["k"]
        state = {"n": 0}

        def local(frame, event, arg):
            if event == "line":
                state["n"] += 1
                if state["n"] == k:
                    sys.settrace(None)
                    try:
                        print("H while A was at", frame.f_code.co_name, frame.f_lineno, "->", pyg.request(ph, cfg, tls=rp.get("tls", False), reset=False).out[:200])
                    finally:
                        sys.settrace(tracer)
            return local

        def tracer(frame, event, arg):
            if event == "call" and (os.path.realpath(frame.f_code.co_filename), frame.f_code.co_name) in lazy:
                return local
            return None
        pyg.reset_globals()
        sys.settrace(tracer)
        try:
            print("A ->", pyg.request(pa, cfg, reset=False).out[:120])
        finally:
            sys.settrace(None)
        for _ in range(2):
            print("H afterwards ->", pyg.request(ph, cfg, tls=rp.get("tls", False), reset=False).out[:200])
    finally:
        tree.close()
    return 0


def replay(data):
    v = data["violation"]
    rp = v["replay"]
    if rp.get("state_interleaving"):
        return _replay_state_interleaving(rp)
    tree = pyg.Tree()
    try:
        trees.standard(tree)
        kw = {"handlers.dir.DirHandler|cachetime": "0"}
        handlers = None
        if rp["handlers"] == "full":
            trees.add_full_list_content(tree)
            os.chmod(tree.path("hello.pyg"), 0o755)
            kw["handlers.ZIP.ZIPHandler|enabled"] = "true"
            handlers = pyg.FULL_HANDLERS
        cfg = pyg.make_config(tree.root, handlers, **kw)
        cwd = _plant(tree, "A")
        rq = rp["request_latin1"].encode("latin-1")
        with pyg.audit() as ev:
            r = pyg.request(rq, cfg, tls=rp["tls"], cwd=cwd)
        print("request:", rq)
        print("response:", r.out[:400] if r.out else r.out)
        print("exception:", repr(r.exc))
        print("log:", r.log)
        print("audit:", [(e, a) for e, a in ev][:20])
    finally:
        tree.close()
    return 0
