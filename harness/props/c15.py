"""C15 — Gopher+ item information is faithful.

Correspondence: `!` responses of files and directories (every sidecar subset, multi-line
contents) vs the model's populate + gplusBlocks; `$` listings of gophermap directories vs the
model (shared machinery with C09).  Oracle: parsed blocks vs the menu line, the sidecar files,
the MIME table and the size; `+` requests prefixed by the exact length or the unknown marker.
"""
import itertools
import mimetypes
import os
import re

import listing
import pyg
import reqs
from leanio import dec_str, enc_str, enc_opt
from main import Result

EXTS = [".abstract", ".keywords", ".ask", ".3d"]
BLOCK = {".abstract": "ABSTRACT", ".keywords": "KEYWORDS", ".ask": "ASK", ".3d": "3D"}
BIG = b"".join(b"bd line %05d abcdefghijabcdefghijabcdefghijabcdefghijabcdefghijabcdefghij\n" % i for i in range(330))   # ~25 KB: beyond the 20480 read-ahead
CONTENTS = [BIG, b"one line\n", b"two\nlines\n", b"trailing space  \nand\ttab\t\n", b"no final newline", b"+INFO: fake\n+ADMIN:\n",
            b" leading space\n", b"caf\xc3\xa9 \xff\n", b"a\r\nb\r\n", b"x\n\ny\n", b""]


def parse_blocks(body):
    """-> list of (name, [lines]) ; INFO's line is kept as its single line"""
    blocks = []
    for ln in body.split(b"\r\n"):
        if ln == b"":
            continue
        if ln.startswith(b"+"):
            m = re.match(rb"\+([A-Z0-9]+):(.*)\Z", ln, re.S)
            if not m:
                blocks.append((b"?", [ln]))
                continue
            blocks.append((m.group(1), [m.group(2)[1:]] if m.group(2) else []))
        elif blocks:
            blocks[-1][1].append(ln[1:] if ln.startswith(b" ") else b"!UNINDENTED!" + ln)
    return blocks


def run(ctx):
    res = Result()
    res.rule = ("files (several MIME classes and sizes), directories and virtual items x all 16 sidecar subsets x seeded multi-line "
                "contents, requested with '!', '$' and '+'. non-trivial = items with >= 2 sidecars, distinct by (item, subset, contents)")
    res.assumptions = ["Mod-Date formatting (time.ctime/localtime) is masked", "sidecar lines are compared right-stripped (the code strips them)"]
    rng = ctx.rng
    tree = pyg.Tree()
    try:
        cfg = pyg.make_config(tree.root, pyg.DIR_HANDLERS, **{"handlers.dir.DirHandler|cachetime": "0"})
        cfg_umn = pyg.make_config(tree.root, **{"handlers.dir.DirHandler|cachetime": "0"})
        items = [("a.txt", b"x" * 10), ("big.bin", bytes(5000)), ("k.txt", b"y" * 1024), ("k2.txt", b"z" * 2047), ("img.gif", b"GIF89a"),
                 ("arch.tar.gz", b"\x1f\x8b"), ("noext", b"data"), ("sp ace.txt", b"s"), (b"\xae.txt", b"r"), ("empty.txt", b"")]
        model_lines, checks = [], []
        subsets = list(itertools.chain.from_iterable(itertools.combinations(EXTS, k) for k in range(5)))
        count = 0
        for name, data in items:
            for sub in subsets:
                if len(sub) not in (0, 4) and rng.random() < (0.0 if (ctx.thorough or ctx.deepen) else 0.3):
                    continue
                d = "d%d" % count
                count += 1
                nb = name if isinstance(name, bytes) else name.encode()
                tree.write(d.encode() + b"/" + nb, data)
                side = {}
                for ext in sub:
                    c = rng.choice(CONTENTS)
                    tree.write(d.encode() + b"/" + nb + ext.encode(), c)
                    side[ext] = c
                sel = "/" + d + "/" + nb.decode("utf-8", "surrogateescape")
                r = pyg.request(reqs.build("gopherp", sel, gplus="!"), cfg)
                res.evaluations += 1
                inp = {"item": sel, "sidecars": {k: v for k, v in side.items()}}
                rp = {"name": nb.decode("latin-1"), "data_len": len(data), "sidecars": {k: v.decode("latin-1") for k, v in side.items()}}
                if not r.out.startswith(b"+-2\r\n"):
                    res.violation("C15:info-failed", "an information request is not answered with +-2 and blocks", inp, observed=r.out[:100],
                                  required="+-2 then blocks", replay=rp)
                    continue
                body = r.out[5:]
                blocks = parse_blocks(body)
                names = [b[0] for b in blocks]
                if len(sub) >= 2:
                    res.nontrivial.add((sel, sub, tuple(sorted(side.items()))))
                # +INFO == the item's plain menu line (plain DirHandler listing of the parent)
                g = pyg.request(reqs.build("gopher", "/" + d), cfg)
                menu = [l for l in g.out.split(b"\r\n") if l.split(b"\t")[1:2] == [sel.encode("utf-8", "surrogateescape")]]
                info = blocks[0][1][0] if blocks and blocks[0][0] == b"INFO" and blocks[0][1] else None
                if not menu or info != menu[0]:
                    res.violation("C15:info-not-menu-line", "+INFO differs from the item's plain Gopher menu line", inp, observed=info,
                                  required=menu[:1], replay=rp)
                if names[:3] != [b"INFO", b"ADMIN", b"VIEWS"]:
                    res.violation("C15:fixed-blocks", "INFO, ADMIN, VIEWS blocks missing or out of order", inp, observed=names, required="INFO ADMIN VIEWS ...", replay=rp)
                # VIEWS: mime + size
                m, enc = mimetypes.guess_type(sel, strict=False)
                mime = "application/octet-stream" if enc else (m or "text/plain")
                want = ("%s: <%dk>" % (mime, len(data) // 1024)).encode()
                views = [b for b in blocks if b[0] == b"VIEWS"]
                if not views or views[0][1] != [want]:
                    res.violation("C15:views", "+VIEWS does not name the item's MIME type and size", inp, observed=views, required=want, replay=rp)
                # one block per readable sidecar with exactly its (right-stripped) lines
                for ext, c in side.items():
                    bl = [b for b in blocks if b[0] == BLOCK[ext].encode()]
                    exp = [x.rstrip() for x in c.decode("utf-8", "surrogateescape").splitlines()] if False else None
                    lines = [x.rstrip() for x in c.decode("utf-8", "surrogateescape").split("\n")]
                    if c.endswith(b"\n") or c == b"":
                        lines = lines[:-1]
                    joined = "\n".join(lines)
                    exp = [x.encode("utf-8", "surrogateescape") for x in joined.splitlines()]
                    if len(c) > 20480 and len(bl) == 1 and bl[0][1] != exp:
                        # beyond the read-ahead cap the block may stop early, but only after >= 20480 characters and only at a line end
                        got_ = bl[0][1]
                        if got_ == exp[:len(got_)] and sum(len(x) + 1 for x in got_) >= 20480:
                            continue
                    if len(bl) != 1 or bl[0][1] != exp:
                        res.violation("C15:sidecar-block", "a sidecar block's lines differ from the sidecar file's lines", inp,
                                      observed=bl, required=(BLOCK[ext], exp), replay=rp)
                extra = [n for n in names[3:] if n.decode() not in [BLOCK[e] for e in side]]
                if extra:
                    res.violation("C15:extra-block", "a block without a sidecar file", inp, observed=extra, required=[], replay=rp)
                # '+' document request: exact length or unknown marker
                rd = pyg.request(reqs.build("gopherp", sel, gplus="+"), cfg)
                res.evaluations += 1
                hdr = rd.out[:rd.out.find(b"\r\n")]
                bodyd = rd.out[rd.out.find(b"\r\n") + 2:]
                if not (hdr == b"+-2" or hdr == b"+%d" % len(bodyd)) or bodyd != data:
                    res.violation("C15:doc-length", "'+' document response not prefixed by its exact length", inp, observed=(hdr, len(bodyd)),
                                  required=len(data), replay=rp)
                # correspondence: model populate + gplusBlocks
                pi = listing.pop_info(tree, cfg, sel)
                masked = re.sub(rb" Mod-Date: [^\r\n]*\r\n", b"", body)
                model_lines.append("\t".join(["iteminfo", enc_str(listing.SRV[0]), str(listing.SRV[1]), enc_str(sel), "!", listing.enc_pop([pi])]))
                checks.append((inp, masked))
        # directories: '!' on a directory with a .abstract inside; '$' listing == '!' of each child
        for i in range(ctx.n(6, 40)):
            d = "dir%d" % i
            tree.write(d + "/f1.txt", b"1")
            tree.write(d + "/f2.html", b"<html><head><title>A  title\n here</title></head></html>")
            tree.write(d + "/f1.txt.abstract", rng.choice(CONTENTS))
            tree.write(d + "/.abstract", rng.choice(CONTENTS))
            sel = "/" + d
            r = pyg.request(reqs.build("gopherp", sel, gplus="!"), cfg)
            res.evaluations += 1
            body = r.out[5:] if r.out.startswith(b"+-2\r\n") else b""
            pi = listing.pop_info(tree, cfg, sel)
            model_lines.append("\t".join(["iteminfo", enc_str(listing.SRV[0]), str(listing.SRV[1]), enc_str(sel), "!", listing.enc_pop([pi])]))
            checks.append(({"item": sel}, re.sub(rb" Mod-Date: [^\r\n]*\r\n", b"", body)))
            # '$' of the directory: the blocks of each child equal the child's own '!' response
            rl = pyg.request(reqs.build("gopherp", sel, gplus="$"), cfg)
            res.evaluations += 1
            lb = rl.out[5:] if rl.out.startswith(b"+-2\r\n") else b""
            for child in ("f1.txt", "f2.html"):
                rc = pyg.request(reqs.build("gopherp", sel + "/" + child, gplus="!"), cfg)
                res.evaluations += 1
                cb = rc.out[5:]
                if cb not in lb:
                    res.violation("C15:dir-info-differs", "'$' blocks of an item differ from its own '!' response", {"dir": sel, "child": child},
                                  observed=lb[:300], required=cb[:300], replay={"name": child, "data_len": 0, "sidecars": {}})
            # every +INFO of '$' equals the plain menu line of the same listing (UMN handler too)
            for c in (cfg, cfg_umn):
                rl = pyg.request(reqs.build("gopherp", sel, gplus="$"), c)
                rg = pyg.request(reqs.build("gopher", sel), c)
                res.evaluations += 2
                infos = [l[7:] for l in rl.out.split(b"\r\n") if l.startswith(b"+INFO: ")]
                menu = [l for l in rg.out.split(b"\r\n") if l]
                if infos != menu:
                    res.violation("C15:dir-info-not-menu", "+INFO lines of a '$' listing differ from the plain menu lines", {"dir": sel},
                                  observed=infos[:4], required=menu[:4], replay={"name": "dir", "data_len": 0, "sidecars": {}})
        _virtual_items(ctx, res)
        _histories(ctx, res)
        _decompressed_items(ctx, res)
        _mod_dates(ctx, res)
        _info_vs_listing(ctx, res)
        outs = ctx.driver.run(model_lines)
        for (inp, impl), o in zip(checks, outs):
            res.evaluations += 1
            model = o if o in ("NO-POP", "CRASH-RENDER") else dec_str(o).encode("utf-8", "surrogateescape")
            if model != impl:
                res.disagree("C15.iteminfo", inp, str(model)[:400], str(impl)[:400])
        res.sample({"item": checks[0][0], "blocks": checks[0][1][:200]})
        res.sample({"item": checks[len(checks) // 2][0], "blocks": checks[len(checks) // 2][1][:200]})
    finally:
        tree.close()
    res.degraded = list(pyg.degraded)
    return res


def _histories(ctx, res):
    """Item information over a history, one server process throughout: (a) a '$' listing served from the directory cache
    (written by whatever protocol came first) is the '$' listing generated without a cache -- sizes of 0, empty and missing
    sidecars included; (b) a sidecar that appears or disappears between two requests is reflected by the next '!' and '$',
    even when the directory's modification time is the same whole second (forced: the time stamp is put back)."""
    rng = ctx.rng
    tree = pyg.Tree()
    try:
        def mk(d):
            tree.write(d + "/placeholder.txt", b"")                      # size 0
            tree.write(d + "/one.txt", b"1")
            tree.write(d + "/k.bin", bytes(3000))
            tree.write(d + "/sub/inner.txt", b"i")
            tree.write(d + "/one.txt.abstract", b"about one\n")
            tree.write(d + "/placeholder.txt.abstract", b"")              # an empty sidecar
            tree.write(d + "/note.html", b"<html><head><title>Note</title></head></html>")
        def mask(b):
            return re.sub(rb" Mod-Date: [^\r\n]*\r\n", b"", b or b"")
        for hname, hl in (("shipped", None), ("dir", pyg.DIR_HANDLERS)):
            for first in ("gopher", "http", "gopherp$", "gemini"):
                d = "c-%s-%s" % (hname, first.replace("$", "S"))
                mk(d)
                sel = "/" + d
                cfg0 = pyg.make_config(tree.root, hl, **{"handlers.dir.DirHandler|cachetime": "0"})
                cfgc = pyg.make_config(tree.root, hl, **{"handlers.dir.DirHandler|cachetime": "600"})
                want = mask(pyg.request(reqs.build("gopherp", sel, gplus="$"), cfg0).out)
                p_, g_ = ("gopherp", "$") if first == "gopherp$" else (first, "+")
                pyg.request(reqs.build(p_, sel, gplus=g_), cfgc, tls=reqs.TLS[p_])                       # writes the cache file
                cached = os.path.exists(tree.path(d + "/" + cfgc.get("handlers.dir.DirHandler", "cachefile")))
                for nth in (2, 3):
                    got = mask(pyg.request(reqs.build("gopherp", sel, gplus="$"), cfgc, reset=(nth == 2)).out)
                    res.evaluations += 1
                    res.count("cached-dollar:" + ("cache-file" if cached else "no-cache-file"))
                    res.nontrivial.add(("cached-$", hname, first, nth))
                    if got != want:
                        i_ = next((i for i, (x, y) in enumerate(zip(got, want)) if x != y), min(len(got), len(want)))
                        res.violation("C15:cached-listing-info-differs", "the item information of a '$' listing served from the directory cache differs from the one generated",
                                      {"dir": sel, "handlers": hname, "cache_written_by": first, "request_number": nth},
                                      observed=got[max(0, i_ - 80):i_ + 80], required=want[max(0, i_ - 80):i_ + 80],
                                      replay={"history": "cached-$", "handlers": hname, "first": first})
            # (b) sidecars appearing / disappearing, directory time stamp held
            d = "s-" + hname
            mk(d)
            sel = "/" + d
            cfg0 = pyg.make_config(tree.root, hl, **{"handlers.dir.DirHandler|cachetime": "0"})
            item = sel + "/one.txt"
            dpath = tree.path(d)

            def blocks_of(out):
                return sorted(set(re.findall(rb"^\+([A-Z0-9]+):", out or b"", re.M)))
            pyg.reset_globals()
            steps = [("add", ".3d", b"3d data\n"), ("add", ".keywords", b"kw\n"), ("remove", ".abstract", None), ("add", ".abstract", b"back again\n"), ("remove", ".3d", None)]
            present = {".abstract"}
            for op, ext, data in steps:
                before = os.stat(dpath)
                pyg.request(reqs.build("gopherp", item, gplus="!"), cfg0, reset=False)
                pyg.request(reqs.build("gopherp", sel, gplus="$"), cfg0, reset=False)
                if op == "add":
                    tree.write(d + "/one.txt" + ext, data)
                    present.add(ext)
                else:
                    os.unlink(tree.path(d + "/one.txt" + ext))
                    present.discard(ext)
                os.utime(dpath, ns=(before.st_atime_ns, before.st_mtime_ns))          # the same time stamp as before the change
                want_names = sorted({b"INFO", b"ADMIN", b"VIEWS"} | {BLOCK[e].encode() for e in present})
                r1 = pyg.request(reqs.build("gopherp", item, gplus="!"), cfg0, reset=False)
                r2 = pyg.request(reqs.build("gopherp", sel, gplus="$"), cfg0, reset=False)
                res.evaluations += 2
                res.nontrivial.add(("sidecar-history", hname, op, ext))
                got1 = blocks_of(r1.out)
                # the item's part of the '$' listing
                part = b""
                for chunk in (r2.out or b"").split(b"+INFO: ")[1:]:
                    if chunk.split(b"\t")[1:2] == [item.encode()]:
                        part = b"+INFO: " + chunk
                got2 = blocks_of(part)
                for form, got in (("!", got1), ("$", got2)):
                    if got != want_names:
                        res.violation("C15:sidecar-block:history", "after a sidecar file was added or removed the item's blocks are not those of the files on disk",
                                      {"item": item, "handlers": hname, "change": op + " " + ext, "request": form, "sidecars_on_disk": sorted(present)},
                                      observed=got, required=want_names, replay={"history": "sidecars", "handlers": hname})
    finally:
        tree.close()
        pyg.reset_globals()


def split_items(body):
    """'$' body -> one block list per item (an item starts at its +INFO line)"""
    items = []
    for b in parse_blocks(body):
        if b[0] == b"INFO" or not items:
            items.append([])
        items[-1].append(b)
    return items


def _virtual_items(ctx, res):
    """Items that are not plain files: remote links (gophermap, .Links/.names), info lines, gophermap-file menus,
    mailbox folders and messages, symlinks.  Every item of every '$' listing and every '!' answer carries
    INFO == menu line, an ADMIN block with the configured Admin: line, and VIEWS when it is a local object with a
    MIME type; every '+' answer (documents and menus alike) starts with +-2 or with the exact body length."""
    import trees
    tree = pyg.Tree()
    try:
        objs = trees.standard(tree, hostile_content=False)
        tree.write("remote/.Links", b"Name=Other server\nType=1\nPath=/\nHost=gopher.example.net\nPort=70\n\n"
                                    b"Name=Other doc\nType=0\nPath=/x.txt\nHost=gopher.example.net\nPort=7070\n")
        tree.write("remote/local.txt", b"local\n")
        tree.write("remote/.abstract", b"directory abstract\n")
        objs = objs + [("/remote", "dir"), ("/remote/local.txt", "file"),
                       # documents the server writes itself (URL redirect pages), with text that is longer in bytes than in characters
                       ("URL:http://example.org/caf\xe9", "file"), ("/URL:https://example.org/\u4e2d\u6587?q=\xfc", "file"), ("URL:http://example.org/plain", "file")]
        for hl, hname in ((None, "shipped"), (pyg.DIR_HANDLERS, "dir")):
            cfg = pyg.make_config(tree.root, hl, **{"handlers.dir.DirHandler|cachetime": "0"})
            admin = cfg.get("protocols.gopherp.GopherPlusProtocol", "admin").encode()
            for sel, kind in objs:
                inp = {"item": sel, "handlers": hname}
                rp = {"virtual": True, "selector": sel, "handlers": hname}
                # '+': exact length or the unknown-length marker, for documents and menus
                rd = pyg.request(reqs.build("gopherp", sel, gplus="+"), cfg)
                res.evaluations += 1
                k = rd.out.find(b"\r\n")
                hdr, bodyd = rd.out[:k], rd.out[k + 2:]
                if hdr.startswith(b"+") and hdr != b"+-2":
                    res.nontrivial.add(("plus-len", sel, hname))
                    if hdr == b"+-1":
                        if not bodyd.endswith(b".\r\n"):
                            res.violation("C15:plus-length", "'+' response marked dot-terminated without the terminator", inp,
                                          observed=(hdr, len(bodyd)), required="+-1 then text ending in .CRLF", replay=rp)
                    elif hdr != b"+%d" % len(bodyd):
                        res.violation("C15:plus-length", "'+' response prefixed by a number that is not the length of what follows", inp,
                                      observed=(hdr, len(bodyd)), required="+<exact length> or +-2", replay=rp)
                elif not hdr.startswith((b"+", b"--")):
                    res.violation("C15:plus-length", "'+' response without a Gopher+ status line", inp, observed=hdr[:60], required="+<n> / +-2", replay=rp)
                # '!' on the item itself, '$' when it is a menu
                is_menu = False
                for mark in ("!", "$"):
                    if mark == "$" and not is_menu:
                        continue
                    rl = pyg.request(reqs.build("gopherp", sel, gplus=mark), cfg)
                    res.evaluations += 1
                    if not rl.out.startswith(b"+-2\r\n"):
                        res.violation("C15:info-failed", "an information request is not answered with +-2 and blocks", dict(inp, mark=mark),
                                      observed=rl.out[:100], required="+-2 then blocks", replay=dict(rp, mark=mark))
                        continue
                    items = split_items(rl.out[5:])
                    if mark == "!" and items and items[0][0][0] == b"INFO" and items[0][0][1]:
                        is_menu = items[0][0][1][0][:1] == b"1"      # what this handler list makes of the object
                    res.count(f"virtual:{hname}:{mark}:items", len(items))
                    for it in items:
                        names = [b[0] for b in it]
                        info = it[0][1][0] if it[0][0] == b"INFO" and it[0][1] else b""
                        res.nontrivial.add(("virtual", hname, sel, mark, info))
                        adm = [b for b in it if b[0] == b"ADMIN"]
                        if names[:2] != [b"INFO", b"ADMIN"] or len(adm) != 1 or not adm[0][1] or adm[0][1][0] != b"Admin: " + admin:
                            res.violation("C15:admin-block", "an item's information lacks the +ADMIN block with the Admin: line",
                                          dict(inp, mark=mark, info=info), observed=names, required="INFO, ADMIN (Admin: <configured>), ...",
                                          replay=dict(rp, mark=mark))
                        flds = info.split(b"\t")
                        local = len(flds) >= 4 and flds[2] == listing.SRV[0].encode() and flds[3] == str(listing.SRV[1]).encode()
                        if local and flds[0][:1] in (b"0", b"1", b"h", b"g", b"9", b"M") and flds[1][:4] not in (b"URL:", b"/URL"):
                            if b"VIEWS" not in names:
                                res.violation("C15:views", "a local item's information lacks the +VIEWS block",
                                              dict(inp, mark=mark, info=info), observed=names, required="INFO, ADMIN, VIEWS", replay=dict(rp, mark=mark))
                    if mark == "$":
                        rg = pyg.request(reqs.build("gopher", sel), cfg)
                        res.evaluations += 1
                        infos = [l[7:] for l in rl.out.split(b"\r\n") if l.startswith(b"+INFO: ")]
                        menu = [l for l in rg.out.split(b"\r\n") if l]
                        if infos != menu:
                            res.violation("C15:dir-info-not-menu", "+INFO lines of a '$' listing differ from the plain menu lines", inp,
                                          observed=infos[:6], required=menu[:6], replay=dict(rp, mark=mark))
    finally:
        tree.close()


def _mod_dates(ctx, res):
    """The Mod-Date line of the +ADMIN block is the item's modification time, in the server's time zone, whatever that zone
    is: files and directories (their mtime), archive members (the wall-clock time stored with the member).  Expected values
    are computed here from the calendar, not through time.localtime()/mktime()."""
    import calendar
    import datetime
    import time
    import zipfile
    zones = [("UTC0", lambda y, mo, d, h: 0),
             # US Eastern with its switching rule: UTC-5, UTC-4 from the second Sunday of March to the first Sunday of November
             ("EST5EDT,M3.2.0,M11.1.0", None), ("CET-1CEST,M3.5.0,M10.5.0/3", None), ("IST-5:30", lambda y, mo, d, h: 19800)]
    old_tz = os.environ.get("TZ")
    tree = pyg.Tree()
    try:
        stamps = [(2021, 7, 15, 12, 34, 56), (2021, 1, 15, 3, 4, 6), (1999, 12, 31, 23, 59, 58), (2024, 2, 29, 0, 0, 2)]
        with zipfile.ZipFile(os.fsdecode(tree.path("arch.zip")), "w") as z:
            for i, st in enumerate(stamps):
                zi = zipfile.ZipInfo("m%d.txt" % i, date_time=st)
                zi.external_attr = 0o100644 << 16
                z.writestr(zi, b"member %d\n" % i)
                zi = zipfile.ZipInfo("sub/deep%d.txt" % i, date_time=st)
                zi.external_attr = 0o100644 << 16
                z.writestr(zi, b"deep %d\n" % i)
        cfg = pyg.make_config(tree.root, pyg.FULL_HANDLERS, **{"handlers.dir.DirHandler|cachetime": "0", "handlers.ZIP.ZIPHandler|enabled": "true"})
        for zone, _ in zones:
            os.environ["TZ"] = zone
            time.tzset()
            # plain files stamped with an instant: expected wall clock = datetime in this zone (fromtimestamp after tzset)
            for i, st in enumerate(stamps):
                tree.write("plain%d.txt" % i, b"p\n")
                epoch = calendar.timegm(st)                    # the instant whose UTC wall clock is `st`
                os.utime(tree.path("plain%d.txt" % i), (epoch, epoch))
            pyg.reset_globals()
            for sel, want in ([("/arch.zip/m%d.txt" % i, st) for i, st in enumerate(stamps)] +
                              [("/arch.zip/sub/deep%d.txt" % i, st) for i, st in enumerate(stamps)] +
                              [("/plain%d.txt" % i, tuple(datetime.datetime.fromtimestamp(calendar.timegm(st)).timetuple()[:6])) for i, st in enumerate(stamps)]):
                r = pyg.request(reqs.build("gopherp", sel, gplus="!"), cfg)
                res.evaluations += 1
                m = re.search(rb" Mod-Date: ([^\r\n<]*)<(\d{14})>\r\n", r.out or b"")
                stamp = "%04d%02d%02d%02d%02d%02d" % want
                res.nontrivial.add(("mod-date", zone, sel))
                wd = "Mon Tue Wed Thu Fri Sat Sun".split()[calendar.weekday(*want[:3])]
                mon = "Jan Feb Mar Apr May Jun Jul Aug Sep Oct Nov Dec".split()[want[1] - 1]
                text = "%s %s %2d %02d:%02d:%02d %04d " % (wd, mon, want[2], want[3], want[4], want[5], want[0])
                if not m or m.group(2).decode() != stamp or m.group(1).decode() != text:
                    res.violation("C15:mod-date:" + ("member" if "arch.zip" in sel else "file"), "Mod-Date is not the item's modification time in the server's zone",
                                  {"item": sel, "TZ": zone}, observed=(m.group(0) if m else (r.out or b"")[:120]), required=" Mod-Date: " + text + "<" + stamp + ">",
                                  replay={"kind": "mod-date", "TZ": zone, "item": sel})
    finally:
        if old_tz is None:
            os.environ.pop("TZ", None)
        else:
            os.environ["TZ"] = old_tz
        time.tzset()
        tree.close()
        pyg.reset_globals()


def _info_vs_listing(ctx, res):
    """The +INFO line of an item's own '!' answer against the line the plain Gopher menu of its directory shows for it, under the
    shipped handler list (the UMN directory handler decorates the entries it lists: extension stripping, .cap files, link-file
    blocks) and under the plain directory handler."""
    tree = pyg.Tree()
    try:
        tree.write("d/plain.txt", b"p\n")
        tree.write("d/noext", b"n\n")
        tree.write("d/capped.txt", b"c\n")
        tree.write("d/.cap/capped.txt", b"Name=Renamed by its cap file\nNumb=1\n")
        tree.write("d/named.txt", b"n\n")
        tree.write("d/.names", b"Path=./named.txt\nName=Renamed by a names block\n")
        tree.write("d/sub/x.txt", b"x\n")
        tree.write("d/capped.txt.abstract", b"abstract of the capped file\n")
        tree.write("d/named.txt.3d", b"three-d data of the named file\n")
        tree.write("d/named.txt.keywords", b"key words\n")
        for hl, hname in ((None, "umn"), (pyg.DIR_HANDLERS, "dir")):
            cfg = pyg.make_config(tree.root, hl, **{"handlers.dir.DirHandler|cachetime": "0"})
            menu = pyg.request(reqs.build("gopher", "/d"), cfg).out or b""
            # side files of an item show in the '$' listing of its directory whatever else names the item (.cap file, link block)
            dollar = pyg.request(reqs.build("gopherp", "/d", gplus="$"), cfg).out or b""
            res.evaluations += 1
            for item_, block_, text_ in (("/d/capped.txt", b"+ABSTRACT:", b" abstract of the capped file"), ("/d/named.txt", b"+3D:", b" three-d data of the named file"),
                                         ("/d/named.txt", b"+KEYWORDS:", b" key words")):
                part = dollar[dollar.find(b"\t" + item_.encode() + b"\t"):]
                part = part[:part.find(b"+INFO: ", 1)] if b"+INFO: " in part[1:] else part
                if block_ + b"\r\n" + text_ + b"\r\n" not in part:
                    res.violation("C15:sidecar-block-missing:" + hname, "an item's side file does not show as its block in the '$' listing of its directory",
                                  {"item": item_, "block": block_, "handlers": hname}, observed=part[:300], required=block_ + b" " + text_,
                                  replay={"virtual": True, "selector": "/d", "handlers": "shipped" if hname == "umn" else "dir"})
            for ln in menu.split(b"\r\n"):
                f = ln.split(b"\t")
                if len(f) < 4 or not f[1].startswith(b"/d/"):
                    continue
                sel = f[1].decode("utf-8", "surrogateescape")
                r = pyg.request(reqs.build("gopherp", sel, gplus="!"), cfg)
                m = re.search(rb"\+INFO: ([^\r\n]*)\r\n", r.out or b"")
                res.evaluations += 1
                res.nontrivial.add(("info-vs-listing", hname, sel))
                info = m.group(1) if m else None
                # (the menu of a plain Gopher request carries no Gopher+ flag; compare up to the port field)
                want = b"\t".join(f[:4])
                got = b"\t".join(info.split(b"\t")[:4]) if info is not None else None
                if got != want:
                    kind = ("cap" if sel.endswith("capped.txt") else "names" if sel.endswith("named.txt") else "extstrip") if hname == "umn" else "plain"
                    res.violation("C15:info-differs-from-menu:" + hname + ":" + kind,
                                  "the +INFO line of an item's '!' answer is not the item's line in the plain Gopher menu of its directory",
                                  {"item": sel, "handlers": hname}, observed=info, required=want,
                                  replay={"virtual": True, "selector": sel, "handlers": "shipped" if hname == "umn" else "dir"})
    finally:
        tree.close()


def _decompressed_items(ctx, res):
    """Documents the decompressing handler generates (non-default configuration): the '+' prefix is the exact length of what
    follows or the unknown-length marker, and a size in +VIEWS is the size of what is delivered — also for gzip files of several
    members (cat a.gz b.gz), whose trailer describes the last member only."""
    import gzip
    tree = pyg.Tree()
    try:
        parts = [b"first member line\n" * 120, b"second member, longer\n" * 200, b"x" * 45]
        docs = {"single.txt.gz": (gzip.compress(parts[0], mtime=0), parts[0]),
                "multi.txt.gz": (b"".join(gzip.compress(p_, mtime=0) for p_ in parts), b"".join(parts)),
                "logs/year.txt.gz": (gzip.compress(parts[1], mtime=0) + gzip.compress(parts[2], mtime=0), parts[1] + parts[2])}
        # ... and documents the template handler generates: the template is long, its expansion short (and the other way round)
        docs["site/status.html.tal"] = (("<html><body><!-- " + "a long comment the expansion keeps, " * 60 + "-->"
                                         "<p tal:condition=\"nothing\">" + "never shown " * 150 + "</p><b tal:content=\"selector\">s</b></body></html>\n").encode(), None)
        docs["site/grow.html.tal"] = (b"<html><body><ul><li tal:repeat=\"x python:range(400)\" tal:content=\"string:item number ${x}\">i</li></ul></body></html>\n", None)
        for n, (z, _plain) in docs.items():
            tree.write(n, z)
        cfg = pyg.make_config(tree.root, pyg.FULL_HANDLERS, **{"handlers.dir.DirHandler|cachetime": "0",
                                                               "handlers.file.CompressedFileHandler|decompressors": "{'gzip': 'zcat'}"})
        for n, (_z, plain) in docs.items():
            sel = "/" + n
            if plain is None:
                plain = pyg.request(reqs.build("gopher", sel), cfg).out or b""       # what the plain request delivers
                if len(plain) < 100 or b"tal:" in plain:
                    res.count("tal-document-not-expanded")
                    continue
            for mark in ("+", "$"):
                wpath = os.path.join(tree.tmp, "w.out")
                with open(wpath, "wb", buffering=0) as wf:
                    pyg.request(reqs.build("gopherp", sel, gplus=mark), cfg, wfile=wf)
                out = open(wpath, "rb").read()
                os.unlink(wpath)
                res.evaluations += 1
                k = out.find(b"\r\n")
                hdr, body = out[:k], out[k + 2:]
                inp = {"item": sel, "handlers": "full + decompressors", "request": mark, "members": 1 if n.startswith("single") else 2}
                rp = {"virtual": True, "selector": sel, "handlers": "shipped"}
                res.nontrivial.add(("decompressed", n, mark))
                if body != plain:
                    res.violation("C15:decompressed-body", "a decompressed document is not delivered as the decompressor's output", inp,
                                  observed=(hdr, len(body)), required=len(plain), replay=rp)
                if hdr != b"+-2" and hdr != b"+%d" % len(body):
                    res.violation("C15:plus-length", "'+' response prefixed by a number that is not the length of what follows", inp,
                                  observed=(hdr, len(body)), required="+<exact length> or +-2", replay=rp)
            r = pyg.request(reqs.build("gopherp", sel, gplus="!"), cfg)
            res.evaluations += 1
            m = re.search(rb"\+VIEWS:\r\n [^:]*: ?(?:<(\d+)k>)?", r.out or b"")
            if m and m.group(1) is not None and int(m.group(1)) != len(plain) // 1024:
                res.violation("C15:views", "+VIEWS gives a size that is not the size of the document delivered", {"item": sel, "handlers": "full + decompressors"},
                              observed=m.group(0)[:80], required="<%dk> or no size" % (len(plain) // 1024), replay={"virtual": True, "selector": sel, "handlers": "shipped"})
    finally:
        tree.close()


def replay(data):
    if data["violation"]["replay"].get("kind") == "mod-date":
        r = Result()
        _mod_dates(None, r)
        print(r.violations[:4])
        return 0
    if data["violation"]["replay"].get("history"):
        print("history check of harness/props/c15.py _histories:", data["violation"]["replay"], data["violation"]["input"])
        return 0
    if data["violation"]["replay"].get("virtual"):
        return _replay_virtual(data["violation"]["replay"])
    rp = data["violation"]["replay"]
    tree = pyg.Tree()
    try:
        cfg = pyg.make_config(tree.root, pyg.DIR_HANDLERS, **{"handlers.dir.DirHandler|cachetime": "0"})
        nb = rp["name"].encode("latin-1")
        tree.write(b"d/" + nb, b"x" * rp["data_len"])
        for ext, c in rp["sidecars"].items():
            tree.write(b"d/" + nb + ext.encode(), c.encode("latin-1"))
        r = pyg.request(reqs.build("gopherp", "/d/" + nb.decode("utf-8", "surrogateescape"), gplus="!"), cfg)
        print(r.out.decode("latin-1"))
    finally:
        tree.close()
    return 0


def _replay_virtual(rp):
    import trees
    tree = pyg.Tree()
    try:
        trees.standard(tree, hostile_content=False)
        tree.write("remote/.Links", b"Name=Other server\nType=1\nPath=/\nHost=gopher.example.net\nPort=70\n\n"
                                    b"Name=Other doc\nType=0\nPath=/x.txt\nHost=gopher.example.net\nPort=7070\n")
        tree.write("remote/local.txt", b"local\n")
        cfg = pyg.make_config(tree.root, None if rp["handlers"] == "shipped" else pyg.DIR_HANDLERS, **{"handlers.dir.DirHandler|cachetime": "0"})
        for mark in ([rp["mark"]] if "mark" in rp else ["+"]):
            print(pyg.request(reqs.build("gopherp", rp["selector"], gplus=mark), cfg).out.decode("latin-1"))
    finally:
        tree.close()
    return 0
