"""C05 — listings only advertise what the server will serve (link closure).

Oracle: crawl from `/` per protocol with an independent client-side parser, follow every
local link in that protocol's own request syntax, require a success response of the
advertised kind.  Correspondence: (a) the link each protocol shows for a menu entry vs the
model's quote/linkUrl; (b) the selector the real handler saw when the link is followed vs the
model's parse of the request sent.
"""
import html
import os
import re
import urllib.parse
import zipfile

import pyg
import reqs
import trees
from leanio import enc_str, enc_list, dec_str, dec_opt
from main import Result
from props.c02 import readlines

SRV = ("srv.example", 7070)

HOSTILE_NAMES = ["sp ace.txt", "q?uestion.txt", "am&p.txt", "ha#sh.txt", "pl+us.txt", "pe%rcent.txt", "pe%41.txt", "eq=ual.txt",
                 "se;mi.txt", "co:lon.txt", "at@.txt", "qu'ote.txt", 'dq"uote.txt', "lt<gt>.txt", "pipe|x.txt", "ti~lde.txt",
                 "tab\there.txt", "unié中.txt", b"bad\xff\xfeutf8.txt", b"\xae.txt", "wapiti.txt", "GEMINI-QUERYx.txt",
                 "URL:notreally", "trailing.dot.", "UPPER.TXT", "dir with space/inner file.txt", "d%20x/y.txt",
                 "back\\slash.txt", "star*.txt", "brace{}.txt", "caret^.txt", "dollar$.txt", "excl!.txt", "paren().txt",
                 "1/one.txt", "newline\nname.txt",
                 # names whose Gopher request line has the outline of another protocol's: three blank-separated parts ending in a number
                 "Symphony No 5", "a b 3", "notes 2 10", "GET it HTTP", "two words"]


def build_tree(tree, full, ctl_names=True):
    """ctl_names: include names containing TAB / LF (not expressible in a Gopher selector, so
    only the URL-based protocols are crawled over them).  The configured URL prefixes themselves
    (waptop '/wap', '/GEMINI-QUERY', '/PYGOPHERD-HTTPPROTO-ICONS') are reserved by configuration
    and not used as content names; look-alikes (wapiti.txt, GEMINI-QUERYx.txt) are."""
    objs = trees.standard(tree, hostile_content=False)
    for n in HOSTILE_NAMES:
        b = n.encode("utf-8", "surrogateescape") if isinstance(n, str) else n
        if not ctl_names and (b"\t" in b or b"\n" in b):
            continue
        tree.write(b, b"content of " + b + b"\n")
    tree.write("maild/new/1", b"Subject: maildir one\n\nbody\n")
    tree.write("maild/cur/2:2,S", b"Subject: maildir two\n\nbody\n")
    tree.mkdir("maild/tmp")
    # messages without any header line (listed as <no subject>, and there to be fetched)
    tree.write("maild/new/3", b"\nonly a body\n")
    tree.write("maild/new/4", b"")
    tree.write("lists/bare.mbox", b"From a@b Sat Jan  5 09:43:01 2002\n\nbody without headers\n\nFrom c@d Sat Jan  5 09:44:01 2002\nSubject: second\n\nbody two\n\n")
    # long paths: three nested names of 80 two-byte characters (a percent-encoded URL of well over 1024 bytes), a name of 255 bytes
    tree.write("long/" + "\xe9" * 80 + "/" + "\xfc" * 80 + "/" + "\xf1" * 80 + "/deep.txt", b"deep\n")
    tree.write("long/" + "n" * 255, b"255\n")
    # link blocks with relative paths that climb and come back (they are listed normalised, or could not be followed)
    tree.write("docs/sub/.Links", b"Name=Sibling document\nType=0\nPath=../a.txt\n\n"
                                  b"Name=Doubled slash\nType=1\nPath=..//sub\n\nName=Up and down\nType=0\nPath=x/../deep.txt\n\n"
                                  b"Name=This server, said with a plus\nType=0\nPath=deep.txt\nHost=+\nPort=+\n\nName=Plus host only\nType=1\nPath=../sub\nHost=+\n")
    # thirteen nested names of 120 non-UTF-8 bytes: 1.6 KiB on disk, a percent-encoded link of more than 4 KiB
    tree.write(b"long13/" + b"/".join(bytes([0xe0 + k]) * 120 for k in range(13)) + b"/bottom.txt", b"bottom\n")
    # a mailbox and a Maildir whose names are as long as a name can be (255 bytes): their messages are virtual selectors below them
    tree.write("mail/" + "m" * 250 + ".mbox", trees.MBOX)
    tree.write("mail/" + "d" * 255 + "/cur/1:2,S", b"Subject: long maildir\n\nbody\n")
    tree.mkdir("mail/" + "d" * 255 + "/new")
    tree.mkdir("mail/" + "d" * 255 + "/tmp")
    if full:
        trees.add_full_list_content(tree)
        os.chmod(tree.path("hello.pyg"), 0o755)
        with zipfile.ZipFile(os.fsdecode(tree.path("names.zip")), "w") as z:
            z.writestr("sp ace.txt", "x")
            z.writestr("d/q?x.txt", "y")
            z.writestr("d/gophermap", "0rel\tq?x.txt\n")


def parse_gopher(out):
    res = []
    for ln in out.split(b"\r\n"):
        f = ln.decode("utf-8", "surrogateescape").split("\t")
        if len(f) >= 4 and f[0]:
            try:
                port = int(f[3])
            except ValueError:
                continue
            res.append((f[0][0], f[0][1:], f[1], f[2], port))
    return res


def links(proto, out, cfg):
    """-> list of (kind, link) for local links; kind in menu|doc|search|any"""
    res = []
    if proto in ("gopher", "sgopher"):
        for t, name, sel, host, port in parse_gopher(out):
            if t in "i3" or host != SRV[0] or port != SRV[1]:
                continue
            res.append(("menu" if t == "1" else "search" if t == "7" else "doc", sel))
    elif proto == "gopherp":
        body = out[out.find(b"\r\n") + 2:]
        for ln in body.split(b"\r\n"):
            if ln.startswith(b"+INFO: "):
                for t, name, sel, host, port in parse_gopher(ln[7:] + b"\r\n"):
                    if t in "i3" or host != SRV[0] or port != SRV[1]:
                        continue
                    res.append(("menu" if t == "1" else "search" if t == "7" else "doc", sel))
    elif proto in ("http", "https"):
        body = reqs.body_of(proto, out).decode("utf-8", "surrogateescape")
        i = body.find('CELLPADDING="0">')
        j = body.rfind("</TABLE><HR>")
        for row in body[i:j].split("<TR>")[1:]:
            icon = re.search(r'SRC="/PYGOPHERD-HTTPPROTO-ICONS/([^"]*)"', row)
            m = re.search(r'<A HREF="([^"]*)">', row)
            if m:
                href = html.unescape(m.group(1))
                if href.startswith("/"):
                    res.append(("menu" if icon and icon.group(1) == "folder.gif" else "doc", href))
            m = re.search(r'ACTION="([^"]*)"', row)
            if m and html.unescape(m.group(1)).startswith("/"):
                res.append(("search", html.unescape(m.group(1))))
    elif proto == "wap":
        body = reqs.body_of(proto, out).decode("utf-8", "surrogateescape")
        for m in re.finditer(r'<a (?:accesskey="[^"]*" )?href="([^"]*)">', body):
            href = html.unescape(m.group(1))
            if href.startswith("/"):
                res.append(("any", href))
    else:  # gemini / spartan
        body = reqs.body_of(proto, out).decode("utf-8", "surrogateescape")
        for ln in body.split("\n"):
            m = re.match(r"=([>:]) (\S+)", ln)
            if m and m.group(2).startswith("/"):
                res.append(("search" if m.group(1) == ":" or m.group(2).startswith("/GEMINI-QUERY/") else "any", m.group(2)))
    return res


def follow(proto, link, kind):
    """request bytes a client of `proto` sends to follow `link`"""
    if proto in ("gopher", "sgopher"):
        s = link.encode("utf-8", "surrogateescape")
        return s + (b"\tquery" if kind == "search" else b"") + b"\r\n"
    if proto == "gopherp":
        s = link.encode("utf-8", "surrogateescape")
        return s + (b"\tquery" if kind == "search" else b"") + (b"\t$" if kind == "menu" else b"\t+") + b"\r\n"
    lb = link.encode("utf-8", "surrogateescape")
    if proto in ("http", "https", "wap"):
        q = b"?searchrequest=query" if kind == "search" else b""
        return b"GET " + lb + q + b" HTTP/1.0\r\nHost: x\r\n\r\n"
    if proto == "gemini":
        return b"gemini://" + SRV[0].encode() + lb + b"\r\n"
    return SRV[0].encode() + b" " + lb + (b" 5\r\nquery" if kind == "search" else b" 0\r\n")


def is_menu(proto, out):
    if proto in ("gopher", "sgopher"):
        lines = [l for l in out.split(b"\r\n") if l]
        return all(len(l.split(b"\t")) >= 4 for l in lines)
    if proto == "gopherp":
        return b"+INFO: " in out or out.startswith(b"+-2\r\n")
    if proto in ("http", "https"):
        return b"Content-Type: text/html" in out and b"<TABLE" in out
    return True


def run(ctx):
    res = Result()
    res.rule = ("full crawl from '/' in 7 protocol syntaxes over a tree with every content kind (real directories with .cap/.names, gophermaps, "
                "mbox and Maildir folders, symlinks; ZIP archives, PYG, scripts with the full list) and %d hostile names (spaces, reserved URL "
                "characters, percent signs, non-UTF-8 bytes, protocol-prefix look-alikes). non-trivial = followed links whose selector "
                "contains a character outside [A-Za-z0-9/._-], distinct by (protocol, link)" % len(HOSTILE_NAMES))
    res.assumptions = ["client-side URL normalisation by real browsers is not modelled", "names containing '..', './' etc. are C12's subject and not in this tree"]
    parse_lines, parse_checks = [], []
    quote_lines, quote_checks = [], []
    for listname, ctl in (("shipped", False), ("shipped", True), ("full", False), ("rootmap", False), ("warm", False), ("wapdir", False),
                         ("waptop:/wap/", False), ("waptop:/m", False), ("waptop:/a/b", False)):
        tree = pyg.Tree()
        try:
            build_tree(tree, listname == "full", ctl)
            kw = {"handlers.dir.DirHandler|cachetime": "0"}
            # a gophermap written on a DOS machine: CR LF line ends, padded fields, an empty trailing field
            tree.write("dos/gophermap", b"Welcome (DOS line ends)\r\n0Readme\t/README\r\n0 Padded \t inner.txt \r\n1Docs\t/docs\t\r\n0inner.txt\r\n")
            tree.write("dos/inner.txt", b"inner\n")
            if listname == "full":
                kw["handlers.ZIP.ZIPHandler|enabled"] = "true"
            if listname == "rootmap":
                # the site's front page is a gophermap: relative, missing and absolute selectors, at the root and one level down
                tree.write("about.txt", b"about\n")
                tree.write("gophermap", b"iWelcome\n0About\tabout.txt\n1Docs\tdocs\n0README\n1Mail\t/mail\n0Deep\tdocs/sub/deep.txt\n1Sub map\tmapped\n")
                tree.write("mapped/gophermap", b"0Inner\tinner.txt\n1Up\t/\n0Abs\t/about.txt\n")
                tree.write("mapped/inner.txt", b"inner\n")
            if listname == "wapdir":
                # content whose names start like the WAP prefix: reachable through WAP itself (prefix + selector), Gopher and Gemini
                # (over HTTP the path /wap/... is WAP's own namespace, a matter of configuration)
                tree.write("wap/phones.txt", b"phones\n")
                tree.write("wap/models/nokia.txt", b"3310\n")
                tree.write("wap/wap/deeper.txt", b"deeper\n")
                tree.write("wapiti/x.txt", b"x\n")
            if listname.startswith("waptop:"):
                # other spellings of the configured WAP prefix (a trailing slash, one letter, two levels): links carry it, the parser strips it
                kw["protocols.wap.WAPProtocol|waptop"] = listname.split(":", 1)[1]
            if listname == "warm":
                # every real directory has been requested directly before (caches written, Maildir sub-directories listed as plain directories)
                kw = {}
            cfg = pyg.make_config(tree.root, pyg.FULL_HANDLERS if listname == "full" else None, **kw)
            waptop = cfg.get("protocols.wap.WAPProtocol", "waptop")
            if listname == "warm":
                for dp, dn, fn in os.walk(os.fsencode(tree.root)):
                    rel = dp[len(os.fsencode(tree.root)):] or b"/"
                    if b"\t" in rel or b"\n" in rel:
                        continue
                    pyg.request(rel + b"\r\n", cfg)
                    pyg.request(b"GET " + urllib.parse.quote(rel).encode() + b" HTTP/1.0\r\n\r\n", cfg)
            for proto in ["gopher", "gopherp", "http", "wap", "gemini", "spartan", "https"]:
                if listname == "full" and proto in ("https",):
                    continue
                if listname in ("rootmap", "warm") and proto not in ("gopher", "http", "gemini"):
                    continue
                if listname == "wapdir" and proto not in ("gopher", "wap", "gemini"):
                    continue
                if listname.startswith("waptop:") and proto != "wap":
                    continue
                if ctl != (proto not in ("gopher", "gopherp")) and listname == "shipped":
                    continue
                start = "/" if proto != "wap" else (waptop if waptop.endswith("/") else waptop + "/")
                seen = set()
                queue = [("menu", start, None)]
                steps = 0
                limit = ctx.n(400, 4000)
                while queue and steps < limit:
                    kind, link, parent = queue.pop(0)
                    if (kind, link) in seen:
                        continue
                    seen.add((kind, link))
                    steps += 1
                    rq = follow(proto, link, kind)
                    tls = reqs.TLS[proto]
                    if listname == "full":
                        wpath = os.path.join(tree.tmp, "w.out")
                        wf = open(wpath, "wb", buffering=0)
                        try:
                            r = pyg.request(rq, cfg, tls=tls, wfile=wf)
                        finally:
                            wf.close()
                        r.out = open(wpath, "rb").read()
                        os.unlink(wpath)
                    else:
                        r = pyg.request(rq, cfg, tls=tls)
                    res.evaluations += 1
                    cls, det = reqs.classify(proto if proto != "gopherp" else "gopherp", r.out)
                    inp = {"handlers": listname, "protocol": proto, "link": link, "advertised": kind, "listed_in": parent}
                    rp = {"handlers": listname, "request_latin1": rq.decode("latin-1"), "tls": tls}
                    if re.search(r"[^A-Za-z0-9/._-]", link):
                        res.nontrivial.add((proto, link))
                    res.count(f"{listname}:{proto}:{kind}:{cls}")
                    if cls == "none" and proto in ("gopher", "sgopher") and r.handler and r.exc is None and not r.exceptions():
                        cls = "ok"   # an empty document
                    if cls != "ok" or r.exc is not None:
                        hk = r.handler or "nohandler"
                        res.violation(f"C05:dead-link:{proto}:{cls}:{hk}", "a listed local link is not served when followed", inp,
                                      observed={"first": (r.out or b"")[:100], "exc": repr(r.exc), "log": r.log[-1:]},
                                      required="success response", replay=rp)
                        continue
                    # gemini search links: 10 prompt, then the redirect target must work with a query
                    if proto == "gemini" and link.startswith("/GEMINI-QUERY/"):
                        if not r.out.startswith(b"10 "):
                            res.violation("C05:gemini-prompt", "a search link does not prompt for input", inp, observed=r.out[:60],
                                          required="10 <prompt>", replay=rp)
                        continue
                    # (b) selector the handler saw vs the model's parse of what was sent
                    if r.selector is not None and r.proto:
                        from props.c02 import SHORT
                        short = SHORT.get(r.proto)
                        i = rq.find(b"\n")
                        line, rest = rq[:i + 1], rq[i + 1:]
                        if short == "spartan":
                            rl = [rest.decode("utf-8", "surrogateescape")]
                        else:
                            rl = [x.decode("utf-8", "surrogateescape") for x in readlines(rest)]
                        parse_lines.append("parse\t%s\t%s\t%s\t%s\tT" % (short, "T" if tls else "F",
                                           enc_str(line.decode("utf-8", "surrogateescape")), enc_list(rl))
                                           + ("\t" + enc_str(waptop) if listname.startswith("waptop:") else ""))
                        parse_checks.append((inp, r.selector))
                    if kind == "menu" and not is_menu(proto, r.out):
                        res.violation(f"C05:wrong-kind:{proto}", "a link advertised as a menu is answered with a document", inp,
                                      observed=r.out[:100], required="menu", replay=rp)
                    if kind == "doc" and proto in ("http", "https") and b'CELLPADDING="0">' in r.out and b"</TABLE><HR>" in r.out \
                            and b"<TITLE>Gopher: " in r.out:
                        res.violation(f"C05:wrong-kind:{proto}:doc", "a link advertised as a document is answered with a menu", inp,
                                      observed=r.out[:160], required="document", replay=rp)
                    if kind in ("menu", "any") and is_menu(proto, r.out) and (kind == "menu" or b"=> " in r.out or b"<a " in r.out):
                        for k2, l2 in links(proto, r.out, cfg):
                            if (k2, l2) not in seen:
                                queue.append((k2, l2, link))
                        # (a) the links shown vs the model's quote of the menu selectors (HTTP vs Gopher of the same dir)
                        if proto == "http":
                            sel = r.selector
                            g = pyg.request(sel.encode("utf-8", "surrogateescape") + b"\r\n", cfg)
                            gl = [x for x in parse_gopher(g.out) if x[0] not in "i" and x[3] == SRV[0] and x[4] == SRV[1]
                                  and not re.match(r"(/|)URL:", x[2])]
                            hl = [l for k, l in links("http", r.out, cfg) if k != "search"]
                            if len(gl) == len(hl):
                                for (t, name, s, hst, prt), h in zip(gl, hl):
                                    if re.search(r"%0[9AaDd]", h):
                                        continue      # TAB, CR, LF in a name: a Gopher menu field cannot carry them (it shows blanks); HTTP's link does
                                    quote_lines.append("quote\t" + enc_str(s))
                                    quote_checks.append(({"selector": s, "dir": sel}, h))
        finally:
            tree.close()
    outs = ctx.driver.run(parse_lines + quote_lines)
    for (inp, impl), o in zip(parse_checks, outs[:len(parse_lines)]):
        res.evaluations += 1
        model = dec_str(o.split("\t")[0])
        if model != impl:
            res.disagree("C05.parse-followed-link", inp, model, impl)
    for (inp, impl), o in zip(quote_checks, outs[len(parse_lines):]):
        res.evaluations += 1
        model = dec_opt(o)
        if model != impl:
            res.disagree("C05.link-is-quote", inp, model, impl)
    res.sample({"protocol": "http", "followed": "GET /sp%20ace.txt HTTP/1.0", "handler_saw": "/sp ace.txt"})
    if parse_checks:
        res.sample({"followed": parse_checks[len(parse_checks) // 2][0], "handler_saw": parse_checks[len(parse_checks) // 2][1]})
    # the whole-site model (tree -> resolution -> dispatch -> entries -> rendering) against the real server
    import sitecorr
    sitecorr.compare(ctx, res, ctx.n(5, 60), "C05")
    res.degraded = list(pyg.degraded) + [d for d in res.degraded if d not in pyg.degraded]
    mailbox_growth(ctx, res)
    return res


def replay(data):
    rp = data["violation"]["replay"]
    tree = pyg.Tree()
    try:
        full = rp["handlers"] == "full"
        build_tree(tree, full, True)
        kw = {"handlers.dir.DirHandler|cachetime": "0"}
        if full:
            kw["handlers.ZIP.ZIPHandler|enabled"] = "true"
        cfg = pyg.make_config(tree.root, pyg.FULL_HANDLERS if full else None, **kw)
        r = pyg.request(rp["request_latin1"].encode("latin-1"), cfg, tls=rp["tls"])
        print(r.out[:500] if r.out else r.out)
        print(r.log, repr(r.exc))
    finally:
        tree.close()
    return 0


def mailbox_growth(ctx, res):
    """One server process: a message of a mailbox is read, the mailbox then grows (a delivery within the same second: the
    file's time stamp in whole seconds stays), the folder is listed again -- every message it now lists is served."""
    msg = lambda k: (b"From a@b Sat Jan  5 09:43:0%d 2002\nSubject: message %d\n\nbody of message %d\n\n" % (k, k, k))  # noqa
    tree = pyg.Tree()
    try:
        tree.write("inbox", msg(1) + msg(2))
        tree.write("maildir2/cur/1:2,S", b"Subject: one\n\nbody\n")
        tree.mkdir("maildir2/new")
        tree.mkdir("maildir2/tmp")
        cfg = pyg.make_config(tree.root, **{"handlers.dir.DirHandler|cachetime": "0"})
        pyg.fresh_process_state()
        st = os.stat(tree.path("inbox"))

        def links(sel):
            out = pyg.request(reqs.build("gopher", sel), cfg, reset=False).out or b""
            return [e[2] for e in parse_gopher(out) if e[0] != "i" and "MESSAGE" in e[2]]
        first = links("/inbox")
        for sel in first:
            pyg.request(reqs.build("gopher", sel), cfg, reset=False)
        with open(tree.path("inbox"), "ab") as f:
            f.write(msg(3))
        os.utime(tree.path("inbox"), ns=(st.st_atime_ns, st.st_mtime_ns))
        tree.write("maildir2/new/2", b"Subject: two\n\nbody two\n")
        for folder in ("/inbox", "/maildir2"):
            for sel in links(folder):
                for p_ in ("gopher", "http"):
                    r = pyg.request(reqs.build(p_, sel), cfg, reset=False)
                    res.evaluations += 1
                    res.nontrivial.add(("mailbox-growth", sel, p_))
                    if reqs.classify(p_, r.out)[0] != "ok":
                        res.violation("C05:dead-link:mailbox-after-growth", "a message the folder lists after the mailbox grew is not served",
                                      {"folder": folder, "link": sel, "protocol": p_, "messages_listed_before": len(first)}, observed=(r.out or b"")[:120],
                                      required="the message", replay={"mailbox_growth": True, "link": sel})
    finally:
        tree.close()
        pyg.fresh_process_state()
