"""C12 — one unservable entry never takes down its directory.

Oracle: for a healthy directory H and the same directory with unservable members added
(dangling symlink, FIFO, socket, a member that vanishes between enumeration and inspection,
names the selector filter rejects; singles and pairs; dot-named variants), the listing with
faults == the listing of H, through every protocol view and both directory handlers.
Correspondence: the real listing vs Model/Umn.dirListing with the faulty members marked
unservable by an independent inspection (stat / file type / name).
"""
import os
import socket
import stat as st

import dirmodel
import listing
import pyg
import reqs
from leanio import dec_str
from main import Result

HEALTHY = ["a.txt", "b.txt", "c dir", "m.html", "z.bin"]
FAULTS = ["dangling", "fifo", "socket", "vanish", "dotdot..name", "dot.\\bs", "back\\\\slash", ".dangling", ".fifo", "loop", "gone.html", "noperm.html", "dangling.pyg", "vanish.pyg", "loop.zip", "latin1-dangling",
          # FIFOs where the server looks for something to read: a link file, a side file, a .cap file (an open would wait for a writer)
          "dot-fifo", "sidecar-fifo", "cap-fifo",
          # ... and where it writes: a FIFO standing where the directory's cache file goes
          "cache-fifo",
          # unservable entries whose names hold characters that mean something to string formatting (they reach log lines)
          "percent-dangling", "percent..name",
          # a side file that is there for stat and cannot be opened (not ours to read)
          "noperm-sidecar",
          # hidden entries whose names the filter rejects (Kubernetes-style ..data, editor leftovers)
          "dotdot-dotfile"]
OPEN_FAULTS = ("gone.html", "noperm.html", "noperm-sidecar")     # stat succeeds, the open that follows fails (deleted in between / not readable)


def plant(tree, d, fault):
    base = tree.path(d)
    if fault == "dangling":
        os.symlink("nowhere-to-be-found", os.path.join(base, b"dangling"))
        return "dangling"
    if fault == "dot-fifo":
        os.mkfifo(os.path.join(base, b".pipe"))
        return ".pipe"
    if fault == "sidecar-fifo":
        if not os.path.lexists(os.path.join(base, b"b.txt.abstract")):
            os.mkfifo(os.path.join(base, b"b.txt.abstract"))
        return "b.txt.abstract"
    if fault == "cap-fifo":
        os.makedirs(os.path.join(base, b".cap"), exist_ok=True)
        os.mkfifo(os.path.join(base, b".cap", b"b.txt"))
        return ".cap"
    if fault == "dotdot-dotfile":
        tree.write(d + "/..data", b"hidden, and refused by the filter\n")
        tree.write(d + "/.notes..bak", b"# an editor left this behind\n")
        os.symlink("nowhere-to-be-found", os.path.join(base, b".lock..tmp"))
        return "..data"
    if fault == "cache-fifo":
        os.mkfifo(os.path.join(base, b".cache.pygopherd.dir"))
        return ".cache.pygopherd.dir"
    if fault == "percent-dangling":
        os.symlink("nowhere-to-be-found", os.path.join(base, b"budget 100%.txt"))
        os.symlink("nowhere-to-be-found", os.path.join(base, b"%s %d %(x)s {0} {}"))
        return "budget 100%.txt"
    if fault == "percent..name":
        tree.write(d + "/rate..5%s.txt", b"name the filter rejects\n")
        return "rate..5%s.txt"
    if fault == "noperm-sidecar":
        if not os.path.lexists(os.path.join(base, b"b.txt.abstract")):      # (a FIFO of that name may be there already: writing to it would wait)
            tree.write(d + "/b.txt.abstract", b"an abstract the server may not read\n")
        tree.write(d + "/c dir/.abstract", b"neither this one\n")
        return "b.txt.abstract"
    if fault == "latin1-dangling":
        # a name that is not UTF-8: it reaches log lines and error texts as lone surrogates
        os.symlink("nowhere-to-be-found", os.path.join(base, b"caf\xe9-dangling.txt"))
        return "caf\udce9-dangling.txt"
    if fault == ".dangling":
        os.symlink("nowhere-to-be-found", os.path.join(base, b".dangling"))
        return ".dangling"
    if fault == "loop":
        os.symlink("loop", os.path.join(base, b"loop"))
        return "loop"
    if fault == "fifo":
        os.mkfifo(os.path.join(base, b"fifo"))
        return "fifo"
    if fault == ".fifo":
        # a dot-named FIFO would block a reader that opens it as a link file; use a socket instead
        s = socket.socket(socket.AF_UNIX)
        s.bind(os.fsdecode(os.path.join(base, b".sock")))
        s.close()
        return ".sock"
    if fault == "socket":
        s = socket.socket(socket.AF_UNIX)
        s.bind(os.fsdecode(os.path.join(base, b"socket")))
        s.close()
        return "socket"
    if fault == "dangling.pyg":
        os.symlink("nowhere-to-be-found.pyg", os.path.join(base, b"dangling.pyg"))
        return fault
    if fault == "loop.zip":
        os.symlink("loop.zip", os.path.join(base, b"loop.zip"))
        return fault
    if fault == "vanish.pyg":
        tree.write(d + "/vanish.pyg", b"# soon gone\n")
        return fault
    if fault in OPEN_FAULTS:
        tree.write(d + "/" + fault, b"<html><head><title>Page that cannot be opened</title></head></html>")
        return fault
    if fault == "vanish":
        tree.write(d + "/vanish", b"soon gone\n")
        return "vanish"
    tree.write(d + "/" + fault, b"name the filter rejects\n")
    return fault


class vanishing:
    """os.stat raises ENOENT for paths ending in /vanish (the member disappears after listdir)."""

    def __enter__(self):
        self.orig = os.stat

        def fake(path, *a, **k):
            p = os.fsencode(path) if not isinstance(path, int) else b""
            if p.endswith(b"/vanish") or p.endswith(b"/vanish.pyg"):
                raise FileNotFoundError(2, "No such file or directory")
            return self.orig(path, *a, **k)
        os.stat = fake
        # ... and a member that is still there for stat but cannot be opened a moment later
        import builtins
        import pygopherd.handlers.base as hb
        self.hb = hb

        def fake_open(path, *a, **k):
            p = os.fsencode(path) if not isinstance(path, int) else b""
            if p.endswith(b"/gone.html"):
                raise FileNotFoundError(2, "No such file or directory")
            if p.endswith(b"/noperm.html") or p.endswith(b"/b.txt.abstract") or p.endswith(b"/c dir/.abstract"):
                raise PermissionError(13, "Permission denied")
            return builtins.open(path, *a, **k)
        hb.open = fake_open
        return self

    def __exit__(self, *a):
        os.stat = self.orig
        try:
            del self.hb.open
        except AttributeError:
            pass


def run(ctx):
    res = Result()
    res.rule = ("a healthy 5-member directory plus every single fault kind (10) and seeded pairs, at the position its name sorts to, listed "
                "through 7 protocol views by the UMN and the plain directory handler. non-trivial = directories with >= 3 healthy entries "
                "and >= 1 fault, distinct by (faults, view, handler)")
    res.assumptions = ["EACCES on stat is represented by the vanished-member case (same code path: no stat result)",
                       "the '.fifo' fault is a dot-named socket; real FIFOs in the places the server reads (link file, side file, .cap file) are the faults dot-fifo, sidecar-fifo, cap-fifo"]
    rng = ctx.rng
    combos = [[f] for f in FAULTS] + [["latin1-dangling"]]      # (the non-UTF-8 name twice: once per logging function)
    for _ in range(ctx.n(6, 40)):
        combos.append(rng.sample(FAULTS, 2))
    model_lines, checks = [], []
    latin1_runs = [0]
    for ci, faults in enumerate(combos):
        tree = pyg.Tree()
        try:
            for d in ("h", "f"):
                for n in HEALTHY:
                    if n == "c dir":
                        tree.write(d + "/c dir/inner.txt", b"i")
                    elif n.endswith("html"):
                        tree.write(d + "/" + n, b"<html><head><title>M page</title></head></html>")
                    else:
                        tree.write(d + "/" + n, b"content\n")
                tree.write(d + "/a.txt.abstract", b"abstract of a\n")
                if ci % 2 == 1:
                    # link blocks naming files on both sides of where the faulty entries sort: they keep meaning those files
                    tree.write(d + "/.names", b"Path=./m.html\nName=Page M, renamed\n\nPath=./z.bin\nType=X\n\nPath=./b.txt\nName=Bee\nNumb=1\n")
            planted = [plant(tree, "f", f) for f in faults]
            # every third combination (and the non-UTF-8 name always) logs through the real file / syslog logging functions
            if faults == ["latin1-dangling"]:
                latin1_runs[0] += 1
                pyg.LOG_THROUGH = ("file", "syslog")[latin1_runs[0] % 2]
            else:
                pyg.LOG_THROUGH = ("file", "syslog")[ci % 2] if (ci % 3 == 0 or "latin1-dangling" in faults) else None
            for hname, handlers, umn in (("umn", None, True), ("dir", pyg.DIR_HANDLERS, False), ("full", pyg.FULL_HANDLERS, True)):
                if hname == "full" and not (ci % 3 == 0 or any(f.endswith((".pyg", ".zip")) for f in faults)):
                    continue      # the full list (ZIP, TAL, PYG, scripts, decompression) on a third of the combinations and on its own file types
                cfg = pyg.make_config(tree.root, handlers, **{"handlers.dir.DirHandler|cachetime": "0", "handlers.ZIP.ZIPHandler|enabled": "true"})
                for view, gplus in listing.VIEWS:
                    rows_h, rh = listing.real_rows(view, gplus, cfg, "/h")
                    with vanishing():
                        rows_f, rf = listing.real_rows(view, gplus, cfg, "/f")
                    res.evaluations += 2
                    inp = {"faults": faults, "view": view, "gplus": gplus, "handler": hname}
                    rp = {"faults": faults, "view": view, "gplus": gplus, "handler": hname}
                    res.nontrivial.add((tuple(faults), view, gplus, hname))
                    if rows_f is None:
                        res.violation("C12:listing-dies:" + "+".join(sorted(faults)) if len(faults) == 1 else "C12:listing-dies:pair",
                                      "one unservable entry makes its directory unlistable", inp,
                                      observed={"out": (rf.out or b"")[:150], "exc": repr(rf.exc), "log": rf.log[-2:]},
                                      required="the listing of every other entry", replay=rp)
                        continue
                    want = rows_h.replace(b"/h/", b"/f/").replace(b"/h%", b"/f%") if rows_h is not None else None
                    got = rows_f
                    # a plain DirHandler lists dot files too; a dot-named fault is a fault like any other there
                    if want is not None and got != want:
                        # which healthy entries are missing?
                        res.violation("C12:entries-lost:" + hname, "the listing with an unservable entry differs from the listing without it", inp,
                                      observed=got[:400], required=want[:400], replay=rp)
                    if view == "gopher" and not gplus and hname != "full" and not any(f in OPEN_FAULTS for f in faults):
                        names = sorted(os.fsdecode(x) for x in os.listdir(tree.path("f")))
                        with vanishing():
                            model_lines.append(dirmodel.request(tree, cfg, "/f", names, umn=umn))
                        checks.append((inp, rows_f))
        finally:
            pyg.LOG_THROUGH = None
            tree.close()
    # ---- an archive whose dangling link members point *through* a regular file (next to links that resolve): the archive, its
    # sub-directories and the directory that holds it all still list
    import zipfile
    import stat as stat_
    tree = pyg.Tree()
    try:
        tree.write("z/a.txt", b"a\n")
        tree.write("z/b.txt", b"b\n")
        with zipfile.ZipFile(os.fsdecode(tree.path("z/bundle.zip")), "w") as zf:
            def member(name, data, link=False):
                zi = zipfile.ZipInfo(name)
                zi.external_attr = ((stat_.S_IFLNK | 0o777) if link else (stat_.S_IFREG | 0o644)) << 16
                zf.writestr(zi, data)
            member("docs/readme.txt", b"read me\n")
            member("docs/notes.txt", b"notes\n")
            member("good", b"docs/readme.txt", link=True)
            member("stale.txt", b"docs/readme.txt/old.txt", link=True)
            member("docs/also-stale", b"notes.txt/x/y", link=True)
            member("later", b"good", link=True)
        cfg = pyg.make_config(tree.root, pyg.FULL_HANDLERS, **{"handlers.dir.DirHandler|cachetime": "0", "handlers.ZIP.ZIPHandler|enabled": "true"})
        for sel, needs in (("/z", [b"/z/a.txt", b"/z/b.txt", b"/z/bundle.zip"]), ("/z/bundle.zip", [b"/z/bundle.zip/docs", b"/z/bundle.zip/good"]),
                           ("/z/bundle.zip/docs", [b"/z/bundle.zip/docs/readme.txt", b"/z/bundle.zip/docs/notes.txt"])):
            for view, gplus in listing.VIEWS[:4]:
                rows, r = listing.real_rows(view, gplus, cfg, sel)
                res.evaluations += 1
                res.nontrivial.add(("zip-link-through-file", sel, view))
                import urllib.parse as _up
                have = rows or b""
                missing = [n for n in needs if n not in have and _up.quote(n.decode()).encode() not in have]
                if rows is None or missing:
                    res.violation("C12:listing-dies:zip-link-through-file", "a dangling link member whose target runs through a regular file takes listings down",
                                  {"selector": sel, "view": view}, observed={"out": (r.out or b"")[:150], "exc": repr(r.exc), "missing": missing, "log": r.log[-2:]},
                                  required="the listing of every other entry", replay={"faults": ["zip-link-through-file"], "view": view, "gplus": gplus, "handler": "full"})
    finally:
        tree.close()
        pyg.reset_globals()
    # ---- histories: an entry that is unservable at one listing and servable at the next (its target appears outside the
    # directory, so the directory itself does not change), and the reverse; one server process throughout.  Each listing is
    # the listing of a twin directory that has been in that state from the start and was never listed before.
    tree = pyg.Tree()
    try:
        def populate(d, link_ok):
            for n in HEALTHY:
                if n == "c dir":
                    tree.write(d + "/c dir/inner.txt", b"i")
                elif n.endswith("html"):
                    tree.write(d + "/" + n, b"<html><head><title>M page</title></head></html>")
                else:
                    tree.write(d + "/" + n, b"content\n")
            os.mkfifo(tree.path(d + "/pipe"))
            os.symlink("../store-" + d + "/k.txt", tree.path(d + "/k-link.txt"))
            tree.mkdir("store-" + d)
            if link_ok:
                tree.write("store-" + d + "/k.txt", b"kept elsewhere\n")
        populate("g", False)
        populate("twin-broken", False)
        populate("twin-ok", True)
        for hname, handlers in (("umn", None), ("dir", pyg.DIR_HANDLERS)):
            cfg = pyg.make_config(tree.root, handlers, **{"handlers.dir.DirHandler|cachetime": "0"})
            for view, gplus in listing.VIEWS[:4]:
                steps = []
                for step, fix in (("dangling", None), ("target created", True), ("target created, again", None), ("target removed", False), ("target back", True)):
                    if fix is True:
                        tree.write("store-g/k.txt", b"kept elsewhere\n")
                    elif fix is False:
                        os.unlink(tree.path("store-g/k.txt"))
                    ok_now = os.path.exists(tree.path("g/k-link.txt"))
                    twin = "twin-ok" if ok_now else "twin-broken"
                    rows_g, rg = listing.real_rows(view, gplus, cfg, "/g")
                    rows_t, rt = listing.real_rows(view, gplus, cfg, "/" + twin)
                    res.evaluations += 2
                    steps.append(step)
                    want = None if rows_t is None else rows_t.replace(b"/" + twin.encode() + b"/", b"/g/").replace(b"/" + twin.encode() + b"%", b"/g%")
                    res.nontrivial.add(("history", hname, view, gplus, step))
                    if rows_g is None or rows_g != want:
                        res.violation("C12:entries-lost:history:" + hname, "after an entry's servability changed the listing is not that of a directory in the new state",
                                      {"handler": hname, "view": view, "gplus": gplus, "history": list(steps)},
                                      observed=(rows_g or b"")[:400], required=(want or b"")[:400],
                                      replay={"faults": ["history"], "view": view, "gplus": gplus, "handler": hname, "history": list(steps)})
                os.unlink(tree.path("store-g/k.txt"))
    finally:
        tree.close()
    outs = ctx.driver.run(model_lines)
    for (inp, impl), o in zip(checks, outs):
        res.evaluations += 1
        model = o if o.startswith(("CRASH", "REGEX")) else dec_str(o).encode("utf-8", "surrogateescape")
        if model != impl:
            res.disagree("C12.dirlisting", inp, str(model)[:500], str(impl)[:500])
    res.sample({"faults": combos[0], "views": len(listing.VIEWS), "handlers": ["umn", "dir"]})
    res.sample({"faults": combos[-1]})
    res.degraded = list(pyg.degraded)
    return res


def replay(data):
    rp = data["violation"]["replay"]
    if rp.get("history"):
        print("history check of harness/props/c12.py (servability changes between listings):", rp, data["violation"]["input"])
        return 0
    tree = pyg.Tree()
    try:
        for n in HEALTHY:
            if n == "c dir":
                tree.write("f/c dir/inner.txt", b"i")
            else:
                tree.write("f/" + n, b"content\n")
        for f in rp["faults"]:
            plant(tree, "f", f)
        cfg = pyg.make_config(tree.root, {"dir": pyg.DIR_HANDLERS, "full": pyg.FULL_HANDLERS}.get(rp["handler"]),
                              **{"handlers.dir.DirHandler|cachetime": "0", "handlers.ZIP.ZIPHandler|enabled": "true"})
        with vanishing():
            rows, r = listing.real_rows(rp["view"], rp["gplus"], cfg, "/f")
        print(r.out)
        print(r.log, repr(r.exc))
    finally:
        tree.close()
    return 0
