"""C13 — generated HTML, WML and Gopher+ blocks cannot be subverted by data.

Correspondence: gophermap-driven listings through all seven views, HTTP / WAP error pages and
the text->WML page: real bytes vs the model's segment builders (the definitions the Lean
theorems are about).  Oracle (model-free): tag/attribute skeleton of the real page with a
payload in an echo position == skeleton with an inert twin; header lines are server-chosen;
Gopher+ content lines are indented.
"""
import html as html_mod
import re

import listing
import pyg
import reqs
import trees
from leanio import enc_str, enc_list, dec_str
from main import Result

META = "<>\"'&"
PAYLOADS = ["note\r+ADMIN:\r Admin: Mallory", "lone\rcr", '"><script>alert(1)</script>', "'><img src=x onerror=y>", "a<b>c", 'x" onmouseover="y', "&lt;already&gt;",
            "a&b", "]]><![CDATA[", "</TT></A><A HREF=\"http://evil/\">", "--><!--", "<?php ?>", "q'q\"q", "\r\n+INFO: fake",
            "$(sr0)", "</p></card>", "tab\tbed", "<", ">", '"', "'", "&", "plain",
            "Harmless page\n+FORGED: 1\n+ADMIN:\n Admin: Mallory", "two\nlines", "cr\rmid", "x\r\n+VIEWS:\r\n text/evil: <9k>"]


def skeleton(page, state="text"):
    """Independent four-state tokenizer (same definition as Model/Skel, written separately)."""
    out = []
    st = state
    for ch in page:
        if st == "text":
            if ch == "<":
                st = "tag"
                out.append(ch)
        elif st == "tag":
            out.append(ch)
            if ch == ">":
                st = "text"
            elif ch == '"':
                st = "dq"
            elif ch == "'":
                st = "sq"
        elif st == "dq":
            if ch == '"':
                st = "tag"
                out.append(ch)
        else:
            if ch == "'":
                st = "tag"
                out.append(ch)
    return st, "".join(out)


def inert_twin(s):
    return "".join("x" if c in META else c for c in s)


def gm_field(s):
    """a payload as a gophermap field: no TAB / CR / LF (they delimit fields and lines)"""
    return re.sub(r"[\t\r\n]", " ", s)


def run(ctx):
    res = Result()
    res.rule = ("payload strings (catalogue + seeded strings over < > \" ' & CR LF) placed in every echo position: gophermap "
                "description / selector / URL: selector / remote host, missing-selector error pages, file names, HTML titles, "
                "mail subjects, abstracts, URL redirect page, text->WML; seven views. non-trivial = payload containing at "
                "least one of < > & \" ' CR LF, distinct by (position, payload, view)")
    res.assumptions = ["browser-side HTML/WML parsing is represented by a four-state tokenizer (text/tag/dq/sq)",
                       "the configurable HTTP page topper is administrator-chosen markup, not data"]
    rng = ctx.rng
    payloads = list(PAYLOADS)
    for _ in range(ctx.n(25, 400)):
        payloads.append("".join(rng.choice(list(META) + ["a", "b", " ", "/", "=", ";", "\r", "\n", "\xe9", "\udcff"]) for _ in range(rng.randint(1, 10))))
    tree = pyg.Tree()
    try:
        cfg = pyg.make_config(tree.root, **{"handlers.dir.DirHandler|cachetime": "0"})
        cfg_dir = pyg.make_config(tree.root, pyg.DIR_HANDLERS, **{"handlers.dir.DirHandler|cachetime": "0"})
        for c_ in (cfg, cfg_dir):
            if c_.has_option("protocols.http.HTTPProtocol", "pagetopper"):
                c_.remove_option("protocols.http.HTTPProtocol", "pagetopper")
        model_lines, model_checks = [], []
        # ---- gophermap positions -------------------------------------------------
        for i, pl in enumerate(payloads):
            f = gm_field(pl)
            t = gm_field(inert_twin(pl))
            for variant, (gm, gmt) in {
                "desc": (f"0{f}\t/nofile\n", f"0{t}\t/nofile\n"),
                "sel": (f"0name\t/{f}\n", f"0name\t/{t}\n"),
                "urlsel": (f"hname\tURL:http://h/{f}\n", f"hname\tURL:http://h/{t}\n"),
                # a URL: selector whose target is site-relative ('/...') or scheme-relative ('//...')
                "urlrel": (f"hname\tURL:/find?q={f}\n", f"hname\tURL:/find?q={t}\n"),
                "urlrel2": (f"hname\tURL://other.example/{f}\n", f"hname\tURL://other.example/{t}\n"),
                "host": (f"1name\t/x\th{f}\t70\n", f"1name\t/x\th{t}\t70\n"),
                "search": (f"7{f}\t/s{f}\n", f"7{t}\t/s{t}\n"),
                "info": (f"{f}\n", f"{t}\n"),
            }.items():
                if variant == "info" and "\t" in gm:
                    continue
                d = f"g{i}{variant}"
                if i % 3 == 0 and variant != "info":
                    # the payload line comes after more links than WAP has access keys (12): rows without a key are rows too
                    prefix = "".join(f"0filler {k_}\t/nofile{k_}\n" for k_ in range(13))
                    gm, gmt = prefix + gm, prefix + gmt
                gmb = gm.encode("utf-8", "surrogateescape")
                gmtb = gmt.encode("utf-8", "surrogateescape")
                if not gmb.strip() or gmb.startswith(b"\t"):
                    continue
                tree.write(d + "/gophermap", gmb)
                tree.write(d + "t/gophermap", gmtb)
                for view, gplus in listing.VIEWS:
                    if view not in ("http", "wap") and rng.random() < 0.7 and not (ctx.thorough or ctx.deepen):
                        continue
                    rows, r = listing.real_rows(view, gplus, cfg, "/" + d)
                    rows_t, rt = listing.real_rows(view, gplus, cfg, "/" + d + "t")
                    res.evaluations += 2
                    inp = {"position": "gophermap:" + variant, "payload": pl, "view": view, "gplus": gplus}
                    rp = {"kind": "gophermap", "gophermap": gm, "view": view, "gplus": gplus}
                    if rows is None or rows_t is None:
                        if r.exc or rt.exc or (rows is None) != (rows_t is None):
                            res.violation(f"C13:listing-failed:{view}", "listing with a payload failed", inp,
                                          observed={"out": (r.out or b"")[:120], "exc": repr(r.exc)}, required="a listing", replay=rp)
                        continue
                    if any(c in pl for c in META + "\r\n"):
                        res.nontrivial.add((variant, pl, view, gplus))
                    if view in ("http", "wap"):
                        s1 = skeleton(rows.decode("utf-8", "surrogateescape"))
                        s2 = skeleton(rows_t.decode("utf-8", "surrogateescape"))
                        res.count(f"skeleton:{view}:{variant}")
                        if s1 != s2:
                            res.violation(f"C13:structure-changed:{view}:gophermap-{variant}",
                                          "data changed the element/attribute structure of a generated page", inp,
                                          observed=s1[1][-200:], required=s2[1][-200:], replay=rp)
                    if view == "gplusdir":
                        _check_blocks(res, rows, inp, rp)
                    # correspondence with the model's builders
                    # local targets that happen to exist ("/" + blank payload is the root) are populated from the file system
                    pops = []
                    try:
                        from props.c09 import reference
                        for ent in reference(gmb, "/" + d, listing.SRV):
                            if ent[2] and not ent[2].startswith(("URL:", "/URL:")):
                                pi = listing.pop_info(tree, cfg, ent[2]) if "\0" not in ent[2] else None
                                if pi and pi not in pops:
                                    pops.append(pi)
                    except Exception:  # noqa
                        pass
                    model_lines.append(listing.model_request(view, gplus, "/" + d, cfg.getboolean("pygopherd", "abstract_headers"),
                                                             cfg.get("pygopherd", "abstract_entries"), None, listing.gm_lines(gmb), pops))
                    model_checks.append(("listing", inp, rows))
        # ---- error pages -----------------------------------------------------------
        for pl in payloads:
            sel = "/missing" + pl.replace("\r", "").replace("\n", "").replace("\t", "")
            for p in ("http", "wap"):
                rq = reqs.build(p, sel)
                rqt = reqs.build(p, inert_twin(sel))
                r, rt = pyg.request(rq, cfg), pyg.request(rqt, cfg)
                res.evaluations += 2
                inp = {"position": "error-page", "payload": pl, "view": p}
                rp = {"kind": "request", "request_latin1": rq.decode("latin-1"), "tls": False}
                b1, b2 = reqs.body_of(p, r.out), reqs.body_of(p, rt.out)
                s1 = skeleton(b1.decode("utf-8", "surrogateescape"))
                s2 = skeleton(b2.decode("utf-8", "surrogateescape"))
                res.nontrivial.add(("error", pl, p))
                if s1 != s2:
                    res.violation(f"C13:structure-changed:{p}:error-page", "data changed the structure of an error page", inp,
                                  observed=s1[1][-200:], required=s2[1][-200:], replay=rp)
                _check_headers(res, r.out, inp, rp)
                # the message the handler produced, read from this request's own log line
                msg = None
                for ln in r.log:
                    k = ln.find("EXCEPTION FileNotFound: ")
                    if k >= 0:
                        msg = ln[k + len("EXCEPTION FileNotFound: "):]
                if msg is not None:
                    model_lines.append(("httperror" if p == "http" else "waperror") + "\t" + enc_str(msg))
                    model_checks.append(("errorpage", inp, b1))
        # ---- URL redirect page --------------------------------------------------------
        for pl in payloads:
            u0 = pl.replace("\r", "").replace("\n", "").replace("\t", "")
            import urllib.parse as _up
            # the URL as it is, with its markup characters percent-encoded, and encoded twice (a decoding step too many, or one
            # made after the escaping, brings them back)
            q_ = lambda x: _up.quote(x, safe="", errors="surrogateescape")  # noqa
            t0 = inert_twin(u0)
            for p, u, tw_ in [(p_, a_, b_) for p_ in ("gopher", "http") for a_, b_ in ((u0, t0), (q_(u0), q_(t0)), (q_(q_(u0)), q_(q_(t0))))]:
                sel = "URL:http://host/" + u
                rq, rqt = reqs.build(p, sel), reqs.build(p, "URL:http://host/" + tw_)
                r, rt = pyg.request(rq, cfg), pyg.request(rqt, cfg)
                res.evaluations += 2
                b1 = reqs.body_of(p, r.out) if p == "http" else r.out
                b2 = reqs.body_of(p, rt.out) if p == "http" else rt.out
                c1, c2 = reqs.classify(p, r.out)[0], reqs.classify(p, rt.out)[0]
                inp = {"position": "url-redirect", "payload": pl, "view": p}
                rp = {"kind": "request", "request_latin1": rq.decode("latin-1"), "tls": False}
                if c1 == "ok" and c2 == "ok":
                    s1 = skeleton(b1.decode("utf-8", "surrogateescape"))
                    s2 = skeleton(b2.decode("utf-8", "surrogateescape"))
                    res.nontrivial.add(("redirect", pl, p))
                    if s1 != s2:
                        res.violation(f"C13:structure-changed:{p}:url-redirect", "data changed the structure of the redirect page", inp,
                                      observed=s1[1][-200:], required=s2[1][-200:], replay=rp)
                elif c1 == "ok" and c2 != "ok":
                    pass  # the payload form is refused for the twin only: nothing to compare
        # ---- names, titles, subjects, abstracts through real directory listings -------
        for i, pl in enumerate(payloads[:ctx.n(30, 200)]):
            # (a file name may hold CR and LF like any other byte except '/' and NUL; a mail subject is one header line)
            nm = pl.replace("/", "_").replace("\0", "")
            if not nm.strip() or nm in (".", "..") or ".." in nm or "./" in nm or nm.startswith(".") or "\\" in nm:
                continue
            subj = nm.replace("\r", " ").replace("\n", " ")
            for d, twin in (("n%d" % i, False), ("n%dt" % i, True)):
                v = inert_twin(nm) if twin else nm
                tree.write(f"{d}/a{v}.txt".encode("utf-8", "surrogateescape"), b"text\n")
                if i % 3 == 0:
                    # the payload entries come after more links than WAP has access keys (12): the rows without a key are rows too
                    for k_ in range(14):
                        tree.write(f"{d}/0fill{k_:02d}.txt", b"filler\n")
                tree.write(f"{d}/a{v}.txt.abstract".encode("utf-8", "surrogateescape"),
                           ((inert_twin(pl) if twin else pl) + "\n").encode("utf-8", "surrogateescape"))
                # the title carries the raw payload (CR/LF included, markup characters as entities): the title parser
                # decodes the entities, so the payload reaches the entry name
                tv = inert_twin(pl) if twin else pl
                tsrc = html_mod.escape(tv, quote=False)
                if i % 2 == 1:
                    # line breaks and tabs written as character references: the parser decodes them after any source-level clean-up
                    tsrc = tsrc.replace("\r", rng.choice(["&#13;", "&#xD;"])).replace("\n", rng.choice(["&#10;", "&#xA;", "&NewLine;", "&#10"])).replace("\t", "&#9;")
                tree.write(f"{d}/page.html", ("<html><head><title>%s</title></head></html>" % tsrc).encode("utf-8", "surrogateescape"))
                tree.write(f"{d}/box.mbox", (b"From a@b Sat Jan  5 09:43:01 2002\nSubject: " +
                                             (inert_twin(subj) if twin else subj).encode("utf-8", "surrogateescape") + b"\n\nbody\n\n"))
            # the UMN handler shows extension-stripped file names; the plain directory handler shows HTML titles,
            # and an item's own '!' response shows the title under both
            for view, gplus, sel_s, cf, cfn in [(v, g, s_, cfg, "umn") for v, g in (("http", False), ("wap", False), ("gplusdir", True), ("gopher", False))
                                                for s_ in ("", "/box.mbox")] + \
                    [(v, g, "", cfg_dir, "dir") for v, g in (("http", False), ("wap", False), ("gplusdir", True), ("gopher", False))] + \
                    [("gplusitem", True, "/page.html", cfg, "umn")]:
                if True:
                    if view == "gplusitem":
                        def _item(sel):
                            r_ = pyg.request(reqs.build("gopherp", sel, gplus="!"), cf)
                            return (r_.out[5:] if r_.out.startswith(b"+-2\r\n") else None), r_
                        rows, r = _item("/n%d" % i + sel_s)
                        rows_t, rt = _item("/n%dt" % i + sel_s)
                    else:
                        rows, r = listing.real_rows(view, gplus, cf, "/n%d" % i + sel_s)
                        rows_t, rt = listing.real_rows(view, gplus, cf, "/n%dt" % i + sel_s)
                    res.evaluations += 2
                    inp = {"position": "directory" + sel_s, "payload": pl, "view": view, "handlers": cfn}
                    rp = {"kind": "names", "name": nm, "abstract": pl, "view": view, "gplus": gplus, "sub": sel_s, "handlers": cfn}
                    if rows is None or rows_t is None:
                        continue
                    res.nontrivial.add(("dir" + sel_s, pl, view))
                    if view in ("http", "wap"):
                        s1 = skeleton(rows.decode("utf-8", "surrogateescape"))
                        s2 = skeleton(rows_t.decode("utf-8", "surrogateescape"))
                        if s1 != s2:
                            res.violation(f"C13:structure-changed:{view}:directory{sel_s}", "data changed the structure of a directory page", inp,
                                          observed=s1[1][-200:], required=s2[1][-200:], replay=rp)
                    elif view == "gopher":
                        _check_menu(res, rows, inp, rp)
                    else:
                        _check_blocks(res, rows, inp, rp)
        # ---- a directory whose own name looks like a URL: selector without being one ---------------------
        for i, pl in enumerate(payloads[:ctx.n(30, 200)]):
            nm = pl.replace("/", "_").replace("\0", "").replace("\r", "").replace("\n", "").replace("\t", " ")
            if not nm.strip() or ".." in nm or "./" in nm or "\\" in nm or "://" in nm or nm != nm.strip():
                continue
            for pre in ("URL:x:", "URL:mailto:", "URL:"):
                dn, dnt = pre + nm, pre + inert_twin(nm)
                try:
                    tree.write((dn + "/inside.txt").encode("utf-8", "surrogateescape"), b"in\n")
                    tree.write((dnt + "/inside.txt").encode("utf-8", "surrogateescape"), b"in\n")
                except OSError:
                    continue
                for p in ("http", "wap"):
                    rq, rqt = reqs.build(p, "/" + dn), reqs.build(p, "/" + dnt)
                    r, rt = pyg.request(rq, cfg), pyg.request(rqt, cfg)
                    res.evaluations += 2
                    b1, b2 = reqs.body_of(p, r.out), reqs.body_of(p, rt.out)
                    if reqs.classify(p, r.out)[0] != "ok" or reqs.classify(p, rt.out)[0] != "ok":
                        continue
                    s1 = skeleton(b1.decode("utf-8", "surrogateescape"))
                    s2 = skeleton(b2.decode("utf-8", "surrogateescape"))
                    res.nontrivial.add(("urlnamed-dir", pl, p))
                    if s1 != s2:
                        res.violation(f"C13:structure-changed:{p}:directory-named-like-url", "a directory's own name changed the structure of its page",
                                      {"position": "directory-own-name", "payload": dn, "view": p}, observed=s1[1][-200:], required=s2[1][-200:],
                                      replay={"kind": "request", "request_latin1": rq.decode("latin-1"), "tls": False})
        # ---- long attribute lines: a block's content lines are the file's lines, each one line, each indented ---------------
        words = ["+ADMIN:", "+INFO:", "1fake", "+VIEWS:", "Admin:", "Mallory", "<m@evil.invalid>", "+ABSTRACT:", "ordinary", "words", "of", "various", "lengths", "x"]
        long_lines = []
        for k_ in range(ctx.n(12, 60)):
            n_words = rng.choice([12, 20, 35, 60])
            long_lines.append(" ".join(rng.choice(words) for _ in range(n_words)))
        long_lines += ["w" * 78 + " +ADMIN: Admin: Mallory", "w" * 79 + " +INFO: 1fake\tfake\t(NULL)\t0".replace("\t", " "), "short"]
        tree.write("longabs/a.txt", b"a\n")
        tree.write("longabs/a.txt.abstract", ("\n".join(long_lines) + "\n").encode())
        tree.write("longabs/a.txt.keywords", (" ".join(words * 12) + "\n").encode())
        for form, sel in (("!", "/longabs/a.txt"), ("$", "/longabs")):
            r = pyg.request(reqs.build("gopherp", sel, gplus=form), cfg)
            res.evaluations += 1
            res.nontrivial.add(("long-attribute-lines", form))
            lines = (r.out or b"").split(b"\r\n")
            # the item's own part: from its +INFO line to the next item's (a '$' listing goes on with the abstract's lines as
            # informational pseudo-items, each with blocks of its own)
            starts = [i_ for i_, ln in enumerate(lines) if ln.startswith(b"+INFO: ")]
            if starts:
                lines = lines[starts[0]:(starts[1] if len(starts) > 1 else len(lines))]
            heads = [ln for ln in lines if re.match(rb"\+[A-Z0-9]+:", ln)]
            names_ = [re.match(rb"\+([A-Z0-9]+):", ln).group(1).decode() for ln in heads if not ln.startswith(b"+-")]
            want_names = ["INFO", "ADMIN", "VIEWS", "ABSTRACT", "KEYWORDS"]
            got_abs = []
            if b"+ABSTRACT:" in lines:
                i0 = lines.index(b"+ABSTRACT:") + 1
                while i0 < len(lines) and lines[i0].startswith(b" "):
                    got_abs.append(lines[i0][1:].decode())
                    i0 += 1
            k0 = [n for n in names_ if n in want_names or n not in ("INFO",)]
            ok = (sorted(set(names_)) == sorted(want_names) and len([n for n in names_ if n == "ADMIN"]) == 1 and
                  len([n for n in names_ if n == "INFO"]) == 1 and got_abs == long_lines)
            if not ok:
                bad = next((ln for ln in lines if ln and not ln.startswith((b" ", b"+"))), None)
                res.violation("C13:gplus-long-line", "long attribute lines are not delivered one line each, indented, inside their own block",
                              {"position": "sidecar abstract / keywords with lines of 80-400 characters", "request": sel + "\t" + form},
                              observed={"headers": names_[:12], "first_unindented": bad[:100] if bad else None, "abstract_lines_read_back": len(got_abs)},
                              required={"headers": want_names, "abstract_lines": len(long_lines)},
                              replay={"kind": "request", "request_latin1": reqs.build("gopherp", sel, gplus=form).decode("latin-1"), "tls": False})
        # ---- text -> WML -------------------------------------------------------------
        for i, pl in enumerate(payloads[:ctx.n(30, 200)]):
            data = (pl + "\nsecond " + pl + "  \n\n").encode("utf-8", "surrogateescape")
            tdata = (inert_twin(pl) + "\nsecond " + inert_twin(pl) + "  \n\n").encode("utf-8", "surrogateescape")
            if (b"\r" in data or b"\n" in pl.encode("utf-8", "surrogateescape")):
                tdata = re.sub(rb"[<>\"'&]", b"x", data)
            tree.write("w%d.txt" % i, data)
            tree.write("w%dt.txt" % i, tdata)
            r = pyg.request(reqs.build("wap", "/w%d.txt" % i), cfg)
            rt = pyg.request(reqs.build("wap", "/w%dt.txt" % i), cfg)
            res.evaluations += 2
            b1, b2 = reqs.body_of("wap", r.out), reqs.body_of("wap", rt.out)
            s1 = skeleton(b1.decode("utf-8", "surrogateescape"))
            s2 = skeleton(b2.decode("utf-8", "surrogateescape"))
            inp = {"position": "wml-text", "payload": pl}
            rp = {"kind": "file", "data_latin1": data.decode("latin-1")}
            res.nontrivial.add(("wml", pl))
            if s1 != s2:
                res.violation("C13:structure-changed:wap:text", "file content changed the structure of the WML page", inp,
                              observed=s1[1][-200:], required=s2[1][-200:], replay=rp)
            model_lines.append("waptext\t" + enc_list(listing.gm_lines(data)))
            model_checks.append(("waptext", inp, b1))
            # and the Lean tokenizer agrees with the independent one on this real page
            model_lines.append("skeleton\ttext\t" + enc_str(b1.decode("utf-8", "surrogateescape")))
            model_checks.append(("skeleton", inp, s1))
        outs = ctx.driver.run(model_lines)
        for (kind, inp, impl), o in zip(model_checks, outs):
            res.evaluations += 1
            if kind == "skeleton":
                st, sk = o.split("\t")
                model = (st, dec_str(sk))
            elif o in ("CRASH-PARSE", "CRASH-RENDER"):
                model = o
            else:
                model = dec_str(o).encode("utf-8", "surrogateescape")
            if model != impl:
                res.disagree("C13." + kind, inp, str(model)[-300:], str(impl)[-300:])
        res.sample({"position": "gophermap description", "payload": payloads[0], "views": [v for v, _ in listing.VIEWS]})
        res.sample({"position": "error page", "payload": payloads[3]})
    finally:
        tree.close()
    res.degraded = list(pyg.degraded)
    return res


HEADER_OK = [re.compile(rb"HTTP/1\.0 200 OK\Z"), re.compile(rb"HTTP/1\.0 404 Not Found\Z"), re.compile(rb"HTTP/1\.0 200 Not Found\Z"),
             re.compile(rb"Last-Modified: [A-Z][a-z]{2}, \d\d [A-Z][a-z]{2} \d{4} \d\d:\d\d:\d\d GMT\Z"),
             re.compile(rb"Content-Type: [A-Za-z0-9.+-]+/[A-Za-z0-9.+-]+\Z")]


def _check_headers(res, out, inp, rp):
    i = out.find(b"\r\n\r\n")
    head = out[:i] if i >= 0 else out
    for ln in head.split(b"\r\n"):
        if not any(p.match(ln) for p in HEADER_OK):
            res.violation("C13:header-not-server-chosen", "an HTTP header line carries something other than a server-chosen value", inp,
                          observed=ln[:120], required="status line, Last-Modified: <date>, Content-Type: <mime>", replay=rp)


def _check_blocks(res, rows, inp, rp):
    """Gopher+ attribute listing: every line is a block header `+NAME:` or `+INFO: ...`, or is indented."""
    in_content_block = False
    for ln in rows.split(b"\r\n"):
        if ln == b"":
            continue
        if b"\r" in ln or b"\n" in ln:
            # a client that takes a bare CR (or LF) for a line end sees what follows as a line of its own
            res.violation("C13:gplus-line-break-inside-line", "a Gopher+ line holds a bare CR or LF (what follows it can pass for a block header)", inp,
                          observed=ln[:120], required="one CR LF per line, none inside", replay=rp)
        if ln.startswith(b"+"):
            m = re.match(rb"\+([A-Z0-9]+):", ln)
            if not m:
                res.violation("C13:gplus-bad-header", "malformed Gopher+ block header", inp, observed=ln[:100], required="+NAME:", replay=rp)
            continue
        if not ln.startswith(b" "):
            res.violation("C13:gplus-unindented", "a Gopher+ content line is not indented (can pass for a block header)", inp,
                          observed=ln[:100], required="content lines start with a space", replay=rp)


def _check_menu(res, rows, inp, rp):
    """plain Gopher menu: every line is type+name TAB selector TAB host TAB port — data never starts a line of its own"""
    for ln in rows.split(b"\r\n"):
        if ln in (b"", b"."):
            continue
        if ln.count(b"\t") < 3 or b"\r" in ln or b"\n" in ln:
            res.violation("C13:menu-line-split", "data split a Gopher menu line", inp, observed=ln[:100],
                          required="type+name TAB selector TAB host TAB port", replay=rp)


def replay(data):
    v = data["violation"]
    rp = v["replay"]
    tree = pyg.Tree()
    try:
        cfg = pyg.make_config(tree.root, **{"handlers.dir.DirHandler|cachetime": "0"})
        if rp["kind"] == "gophermap":
            tree.write("d/gophermap", rp["gophermap"].encode("utf-8", "surrogateescape"))
            rows, r = listing.real_rows(rp["view"], rp["gplus"], cfg, "/d")
            print(r.out)
        elif rp["kind"] == "request":
            r = pyg.request(rp["request_latin1"].encode("latin-1"), cfg, tls=rp["tls"])
            print(r.out)
        elif rp["kind"] == "file":
            tree.write("w.txt", rp["data_latin1"].encode("latin-1"))
            print(pyg.request(reqs.build("wap", "/w.txt"), cfg).out)
        elif rp["kind"] == "names":
            cf = cfg if rp.get("handlers", "umn") == "umn" else pyg.make_config(tree.root, pyg.DIR_HANDLERS, **{"handlers.dir.DirHandler|cachetime": "0"})
            nm, pl = rp["name"], rp["abstract"]
            tree.write(f"n/a{nm}.txt".encode("utf-8", "surrogateescape"), b"text\n")
            tree.write(f"n/a{nm}.txt.abstract".encode("utf-8", "surrogateescape"), (pl + "\n").encode("utf-8", "surrogateescape"))
            tree.write("n/page.html", ("<html><head><title>%s</title></head></html>" % html_mod.escape(pl, quote=False)).encode("utf-8", "surrogateescape"))
            tree.write("n/box.mbox", b"From a@b Sat Jan  5 09:43:01 2002\nSubject: " + nm.encode("utf-8", "surrogateescape") + b"\n\nbody\n\n")
            if rp["view"] == "gplusitem":
                print(pyg.request(reqs.build("gopherp", "/n" + rp["sub"], gplus="!"), cf).out)
            else:
                rows, r = listing.real_rows(rp["view"], rp["gplus"], cf, "/n" + rp["sub"])
                print(r.out)
        else:
            print(rp)
    finally:
        tree.close()
    return 0
