"""/repo -> lean/PygVerif/Generated.lean   (regenerated on every run; DESIGN.md §4.1)

Declarative facts that a one-line edit can change are read from /repo's working tree
(Python `ast`, `configparser`, class attributes, or direct execution under substituted
system calls) and emitted as Lean definitions; the property theorems are re-checked
against what was read.  Every table records which path produced it ("ast",
"behavioural", "exact", "executed") in `info`.
"""
import ast
import configparser
import itertools
import os
import sys

HERE = os.path.dirname(os.path.abspath(__file__))
VERIF = os.path.dirname(HERE)
REPO = os.environ.get("PYG_REPO", "/repo")
OUT = os.path.join(VERIF, "lean", "PygVerif", "Generated.lean")


def lstr(s):
    if isinstance(s, bytes):
        return "[" + ",".join(str(b) for b in s) + "]"
    return "[" + ",".join(str(ord(c)) for c in s) + "]"


def llist(xs):
    return "[" + ", ".join(lstr(x) for x in xs) + "]"


def _find_func(tree, cls, fn):
    for node in ast.walk(tree):
        if isinstance(node, ast.ClassDef) and node.name == cls:
            for b in node.body:
                if isinstance(b, ast.FunctionDef) and b.name == fn:
                    return b
    return None


SUFFIX_CLAUSE = "not self.selector.endswith('/.')"


def _finds_in_and(fn):
    """`return (self.selector.find(c) == -1) and ...` -> [c, ...] plus the list of other
    conjunct sources; None if the shape is not recognised."""
    rets = [n for n in ast.walk(fn) if isinstance(n, ast.Return)]
    if len(rets) != 1 or rets[0].value is None:
        return None
    v = rets[0].value
    conj = v.values if isinstance(v, ast.BoolOp) and isinstance(v.op, ast.And) else [v]
    lits, others = [], []
    for c in conj:
        ok = (isinstance(c, ast.Compare) and len(c.ops) == 1 and isinstance(c.ops[0], ast.Eq)
              and isinstance(c.left, ast.Call) and isinstance(c.left.func, ast.Attribute)
              and c.left.func.attr == "find" and len(c.left.args) == 1
              and isinstance(c.left.args[0], ast.Constant) and isinstance(c.left.args[0].value, str)
              and isinstance(c.left.func.value, ast.Attribute) and c.left.func.value.attr == "selector"
              and isinstance(c.comparators[0], ast.UnaryOp) and isinstance(c.comparators[0].op, ast.USub)
              and isinstance(c.comparators[0].operand, ast.Constant) and c.comparators[0].operand.value == 1)
        if ok:
            lits.append(c.left.args[0].value)
        else:
            others.append(ast.unparse(c))
    # no other statements with effects: body = docstring + return
    body = [s for s in fn.body if not (isinstance(s, ast.Expr) and isinstance(s.value, ast.Constant))]
    if len(body) != 1:
        return None
    return lits, others


def _learn_base_filter():
    """Behavioural fall-back: minimal rejected substrings of length <= 3 over {. / \\ NUL a}."""
    sys.path.insert(0, REPO)
    from pygopherd.handlers.base import BaseHandler
    alpha = [".", "/", "\\", "\0", "a"]
    rejected = set()

    def rej(s):
        h = BaseHandler("a" + s + "a", None, None, None, None, vfs=object())
        return not h.isrequestsecure()
    for n in (1, 2, 3):
        for t in itertools.product(alpha, repeat=n):
            s = "".join(t)
            if any(r in s for r in rejected):
                continue
            if rej(s):
                rejected.add(s)
    return sorted(rejected, key=lambda x: (len(x), x))


def _learn_url_filter():
    sys.path.insert(0, REPO)
    from pygopherd.handlers.url import HTMLURLHandler
    out = []
    for c in range(0, 128):
        ch = chr(c)
        sel = "URL:http://a" + ch + "b"
        h = HTMLURLHandler(sel, None, None, None, None, vfs=object())
        if h.canhandlerequest() and not h.isrequestsecure():
            out.append(ch)
    return out


def base_filter(info):
    src = open(os.path.join(REPO, "pygopherd/handlers/base.py")).read()
    try:
        fn = _find_func(ast.parse(src), "BaseHandler", "isrequestsecure")
        r = _finds_in_and(fn) if fn else None
        # the one conjunct that is not a substring test: the model's `secureB` has it built in
        # (a final "/." is refused); its presence in the code is checked by the `secure` correspondence
        if r and all(o == SUFFIX_CLAUSE for o in r[1]):
            info["forbidden"] = "ast"
            info["forbiddenSuffixClause"] = bool(r[1])
            return r[0]
    except SyntaxError:
        pass
    info["forbidden"] = "behavioural"
    return _learn_base_filter()


def url_filter(info):
    src = open(os.path.join(REPO, "pygopherd/handlers/url.py")).read()
    try:
        fn = _find_func(ast.parse(src), "HTMLURLHandler", "isrequestsecure")
        r = _finds_in_and(fn) if fn else None
        if r and r[1] == ["self.canhandlerequest()"]:
            info["urlForbidden"] = "ast"
            return r[0]
    except SyntaxError:
        pass
    info["urlForbidden"] = "behavioural"
    return _learn_url_filter()


def copy_block(info):
    src = open(os.path.join(REPO, "pygopherd/handlers/base.py")).read()
    try:
        fn = _find_func(ast.parse(src), "VFS_Real", "copyto")
        consts = [n.args[0].value for n in ast.walk(fn)
                  if isinstance(n, ast.Call) and isinstance(n.func, ast.Attribute) and n.func.attr == "read"
                  and len(n.args) == 1 and isinstance(n.args[0], ast.Constant) and isinstance(n.args[0].value, int)]
        if len(consts) == 1:
            info["copyBlock"] = "ast"
            return consts[0]
    except Exception:  # noqa
        pass
    # behavioural: a counting file object
    info["copyBlock"] = "behavioural"
    sys.path.insert(0, REPO)
    from pygopherd.handlers.base import VFS_Real
    seen = []

    class F:
        def __init__(self):
            self.left = 3

        def read(self, n=-1):
            seen.append(n)
            self.left -= 1
            return b"x" if self.left > 0 else b""

        def readinto(self, buf):
            seen.append(len(buf))
            self.left -= 1
            if self.left > 0:
                buf[0:1] = b"x"
                return 1
            return 0

        def __enter__(self):
            return self

        def __exit__(self, *a):
            return False

    class V(VFS_Real):
        def open(self, *a, **k):
            return F()
    import io
    try:
        V(None).copyto("/x", io.BytesIO())
    except Exception:  # noqa  (a copy loop of another shape: the block size is then unknown, which the C20 correspondence reports)
        pass
    return seen[0] if seen and isinstance(seen[0], int) and seen[0] > 0 else 0


def conf_list(cfg, sec, opt):
    """`[mod.Class, ...]` -> ['mod.Class', ...]"""
    t = ast.parse(cfg.get(sec, opt).strip(), mode="eval").body
    out = []
    for e in t.elts:
        out.append(ast.unparse(e))
    return out


def generate(extra_sections=()):
    info = {}
    cfg = configparser.ConfigParser()
    cfg.read(os.path.join(REPO, "conf", "pygopherd.conf"))
    L = []
    A = L.append
    A("import PygVerif.Model.Str")
    A("import PygVerif.Model.Init")
    A("/-! GENERATED by harness/extract.py from /repo on every run — do not edit. -/")
    A("namespace Pyg.Generated")
    A("")
    A(f"def forbidden : List Str := {llist(base_filter(info))}")
    A(f"def urlForbidden : List Str := {llist(url_filter(info))}")
    A(f"def copyBlock : Nat := {copy_block(info)}")
    try:
        protos = conf_list(cfg, "protocols.ProtocolMultiplexer", "protocols")
        info["shippedProtocols"] = "exact"
    except Exception:  # noqa
        protos = []
        info["shippedProtocols"] = "tie degraded"
    A(f"def shippedProtocols : List Str := {llist(protos)}")
    try:
        hs = conf_list(cfg, "handlers.HandlerMultiplexer", "handlers")
        info["shippedHandlers"] = "exact"
    except Exception:  # noqa
        hs = []
        info["shippedHandlers"] = "tie degraded"
    A(f"def shippedHandlers : List Str := {llist(hs)}")
    A(f"def cacheFile : Str := {lstr(cfg.get('handlers.dir.DirHandler', 'cachefile', fallback=''))}")
    A(f"def cacheTime : Nat := {cfg.getint('handlers.dir.DirHandler', 'cachetime', fallback=0)}")
    A(f"def ignorePatt : Str := {lstr(cfg.get('handlers.dir.DirHandler', 'ignorepatt', fallback=''))}")
    try:
        ea = eval(cfg.get("GopherEntry", "eaexts"))
        info["eaexts"] = "exact"
    except Exception:  # noqa
        ea = {}
        info["eaexts"] = "tie degraded"
    A("def eaexts : List (Str × Str) := [" +
      ", ".join(f"({lstr(k)}, {lstr(v)})" for k, v in ea.items()) + "]")
    A(f"def waptop : Str := {lstr(cfg.get('protocols.wap.WAPProtocol', 'waptop', fallback=''))}")
    A(f"def abstractHeaders : Bool := {'true' if cfg.getboolean('pygopherd', 'abstract_headers', fallback=False) else 'false'}")
    A(f"def abstractEntries : Str := {lstr(cfg.get('pygopherd', 'abstract_entries', fallback=''))}")
    A(f"def extstrip : Str := {lstr(cfg.get('handlers.UMN.UMNDirHandler', 'extstrip', fallback=''))}")
    try:
        im = eval(cfg.get("protocols.http.HTTPProtocol", "iconmapping"))
        info["iconMapping"] = "exact"
    except Exception:  # noqa
        im = {}
        info["iconMapping"] = "tie degraded"
    A("def iconMapping : List (Str × Str) := [" + ", ".join(f"({lstr(k)}, {lstr(v)})" for k, v in im.items()) + "]")
    A(f"def gplusAdmin : Str := {lstr(cfg.get('protocols.gopherp.GopherPlusProtocol', 'admin', fallback=''))}")
    A(f"def defaultMime : Str := {lstr(cfg.get('GopherEntry', 'defaultmimetype', fallback=''))}")
    for sec in extra_sections:
        try:
            lines = sec(info)
        except Exception as e:  # noqa
            info[getattr(sec, "__name__", "extra")] = f"tie degraded: {type(e).__name__}: {e}"
            lines = []
        L.extend(lines)
    A("")
    A("end Pyg.Generated")
    text = "\n".join(L) + "\n"
    old = None
    if os.path.exists(OUT):
        old = open(OUT, encoding="utf-8").read()
    if old != text:
        tmp = OUT + ".tmp%d" % os.getpid()
        with open(tmp, "w", encoding="utf-8") as f:
            f.write(text)
        os.replace(tmp, OUT)
        info["_changed"] = True
    return info


if __name__ == "__main__":
    from extract_more import SECTIONS
    print(generate(SECTIONS))
