#!/venv/bin/python
"""Copy a sub-agent's seeded changes (/tmp/mut-Cnn-out/m{i}.*) into /verif/seeded/Cnn-m{i}/ and confirm them:
demo prints OK on the clean /repo, BROKEN with the patch; the test suite keeps its baseline result under the patch."""
import json
import os
import re
import shutil
import subprocess
import sys

VERIF = os.path.dirname(os.path.dirname(os.path.abspath(__file__)))
REPO = "/repo"


def sh(cmd, cwd=None, timeout=1200):
    p = subprocess.run(cmd, shell=True, cwd=cwd, stdout=subprocess.PIPE, stderr=subprocess.STDOUT, timeout=timeout)
    return p.returncode, p.stdout.decode(errors="replace")


def main(argv):
    for pid in argv:
        src = f"/tmp/mut-{pid}-out"
        for i in (1, 2, 3, 4):
            if not os.path.isfile(f"{src}/m{i}.diff"):
                continue
            sid = f"{pid}-m{i}"
            d = os.path.join(VERIF, "seeded", sid)
            os.makedirs(d, exist_ok=True)
            shutil.copy(f"{src}/m{i}.diff", f"{d}/patch.diff")
            shutil.copy(f"{src}/m{i}_demo.py", f"{d}/demo.py")
            for extra in os.listdir(src):   # helper modules a demo imports
                if extra.startswith("_") and extra.endswith(".py"):
                    shutil.copy(f"{src}/{extra}", f"{d}/{extra}")
            try:
                meta = json.load(open(f"{src}/m{i}.json"))
            except Exception:  # noqa
                meta = {}
            meta["property"] = pid
            meta["origin"] = "sub-agent given only the property text and a scratch worktree"
            rc, out = sh("git status --porcelain -uno", cwd=REPO)
            assert not out.strip(), "repo dirty"
            rc, clean = sh(f"/venv/bin/python -B {d}/demo.py", cwd=REPO, timeout=300)
            clean_last = clean.strip().splitlines()[-1] if clean.strip() else ""
            rc, out = sh(f"git apply {d}/patch.diff", cwd=REPO)
            if rc != 0:
                meta["confirmed"] = False
                meta["confirm_note"] = "patch does not apply: " + out[-200:]
            else:
                try:
                    rc, broken = sh(f"/venv/bin/python -B {d}/demo.py", cwd=REPO, timeout=300)
                    lines = [l for l in broken.splitlines() if l.startswith("BROKEN")]
                    rc, tests = sh("/venv/bin/python -m pytest -q -p no:cacheprovider --timeout=900 2>&1 | tail -3", cwd=REPO)
                    m = re.search(r"(\d+) failed, (\d+) passed", tests)
                    baseline = bool(m and m.group(1) == "1" and m.group(2) == "119" and "test_save_cache" in tests)
                    meta["confirmed"] = bool(lines) and clean_last.startswith("OK") and baseline
                    meta["confirm_note"] = {"clean": clean_last[:200], "patched": (lines[0] if lines else broken.strip()[-200:])[:300], "tests_baseline": baseline}
                finally:
                    sh("git checkout -- .", cwd=REPO)
                    sh("git clean -fdq -- pygopherd simpletal tests", cwd=REPO)
            json.dump(meta, open(f"{d}/meta.json", "w"), indent=1)
            print(sid, "confirmed" if meta.get("confirmed") else "NOT CONFIRMED", "|", meta.get("title", "")[:90])
            if not meta.get("confirmed"):
                print("   ", meta.get("confirm_note"))


if __name__ == "__main__":
    main(sys.argv[1:])
