#!/venv/bin/python
"""Re-confirm seeded changes against /repo HEAD after their patch was re-based (a fix in /repo shifted the context).
For each id: optionally take a new patch (--from DIR holds rb-<id>.diff), then in a scratch worktree: demo -> OK clean,
git apply, demo -> BROKEN, suite -> baseline.  meta.json keeps its origin; gains "rebased".
usage: tools/reconfirm_seeded.py [--from DIR] [-j N] ID..."""
import json
import os
import re
import shutil
import subprocess
import sys
from concurrent.futures import ThreadPoolExecutor

VERIF = os.path.dirname(os.path.dirname(os.path.abspath(__file__)))
REPO = "/repo"


def sh(cmd, cwd=None, timeout=1500, env=None):
    p = subprocess.run(cmd, shell=True, cwd=cwd, stdout=subprocess.PIPE, stderr=subprocess.STDOUT, timeout=timeout, env=env)
    return p.returncode, p.stdout.decode(errors="replace")


def one(sid, src):
    d = os.path.join(VERIF, "seeded", sid)
    meta = json.load(open(f"{d}/meta.json"))
    head = sh(f"git -C {REPO} rev-parse --short HEAD")[1].strip()
    if src and os.path.isfile(f"{src}/rb-{sid}.diff"):
        shutil.copy(f"{src}/rb-{sid}.diff", f"{d}/patch.diff")
        meta["rebased"] = f"patch re-based on /repo {head} (same change, context shifted by a fix: commit)"
    wt = f"/tmp/rc-{sid}"
    sh(f"git -C {REPO} worktree remove --force {wt}")
    sh(f"git -C {REPO} worktree add --detach {wt} HEAD")
    env = dict(os.environ, PYTHONPATH=wt)
    try:
        rc, clean = sh(f"/venv/bin/python -B {d}/demo.py", cwd=wt, timeout=300, env=env)
        clean_last = clean.strip().splitlines()[-1] if clean.strip() else ""
        rc, out = sh(f"git apply {d}/patch.diff", cwd=wt)
        if rc != 0:
            meta["confirmed"] = False
            meta["confirm_note"] = "patch does not apply: " + out[-200:]
        else:
            rc, broken = sh(f"/venv/bin/python -B {d}/demo.py", cwd=wt, timeout=300, env=env)
            lines = [l for l in broken.splitlines() if l.startswith("BROKEN")]
            rc, tests = sh("/venv/bin/python -m pytest -q -p no:cacheprovider --timeout=900 2>&1 | tail -3", cwd=wt, env=env)
            m = re.search(r"(\d+) failed, (\d+) passed", tests)
            baseline = bool(m and m.group(1) == "1" and m.group(2) == "119" and "test_save_cache" in tests)
            meta["confirmed"] = bool(lines) and clean_last.startswith("OK") and baseline
            meta["confirm_note"] = {"clean": clean_last[:200], "patched": (lines[0] if lines else broken.strip()[-200:])[:300], "tests_baseline": baseline,
                                    "ran": f"scratch worktree of /repo {head}: demo (clean) -> OK; git apply patch.diff; demo -> BROKEN; pytest -> baseline (1 failed test_save_cache, 119 passed)"}
    finally:
        sh(f"git -C {REPO} worktree remove --force {wt}")
    json.dump(meta, open(f"{d}/meta.json", "w"), indent=1)
    msg = f"{sid} {'confirmed' if meta.get('confirmed') else 'NOT CONFIRMED'} | {meta.get('title', '')[:80]}"
    if not meta.get("confirmed"):
        msg += "\n    " + json.dumps(meta.get("confirm_note"))[:600]
    print(msg, flush=True)


def main(argv):
    src, j = None, 4
    while argv and argv[0].startswith("-"):
        if argv[0] == "--from":
            src, argv = argv[1], argv[2:]
        elif argv[0] == "-j":
            j, argv = int(argv[1]), argv[2:]
    with ThreadPoolExecutor(j) as ex:
        list(ex.map(lambda s: one(s, src), argv))


if __name__ == "__main__":
    main(sys.argv[1:])
