#!/venv/bin/python
"""Copy a second-round sub-agent's seeded changes (/tmp/mut2-Cnn-out/m{i}.*) into /verif/seeded/Cnn-m{3+i}/ and confirm
them in a scratch worktree of /repo (never in /repo itself): demo prints OK on the clean tree, BROKEN with the patch;
the test suite keeps its baseline result under the patch.   usage: tools/import_seeded2.py C01 C02 ..."""
import json
import os
import re
import shutil
import subprocess
import sys

VERIF = os.path.dirname(os.path.dirname(os.path.abspath(__file__)))
REPO = "/repo"


def sh(cmd, cwd=None, timeout=1200, env=None):
    p = subprocess.run(cmd, shell=True, cwd=cwd, stdout=subprocess.PIPE, stderr=subprocess.STDOUT, timeout=timeout, env=env)
    return p.returncode, p.stdout.decode(errors="replace")


def main(argv):
    offset, prefix, rnd = 3, "/tmp/mut2-", "second"
    if argv and argv[0] == "--round3":
        offset, prefix, rnd, argv = 5, "/tmp/mut3-", "third", argv[1:]
    srcdir = None
    if argv and argv[0] == "--src":        # --src DIR OFFSET PID : one directory of m1/m2 files for one property, numbered from OFFSET+1
        srcdir, offset, rnd, argv = argv[1], int(argv[2]), "focused", argv[3:]
    for pid in argv:
        src = srcdir or f"{prefix}{pid}-out"
        for i in (1, 2, 3):
            if not os.path.isfile(f"{src}/m{i}.diff"):
                continue
            sid = f"{pid}-m{offset + i}"
            d = os.path.join(VERIF, "seeded", sid)
            os.makedirs(d, exist_ok=True)
            shutil.copy(f"{src}/m{i}.diff", f"{d}/patch.diff")
            shutil.copy(f"{src}/m{i}_demo.py", f"{d}/demo.py")
            for extra in os.listdir(src):   # helper modules a demo imports
                if extra.startswith("_") and extra.endswith(".py"):
                    shutil.copy(f"{src}/{extra}", f"{d}/{extra}")
            try:
                meta = json.load(open(f"{src}/m{i}.json"))
            except Exception:  # noqa
                meta = {}
            meta["property"] = pid
            meta["origin"] = f"sub-agent ({rnd} round) given only the property text and a scratch worktree"
            wt = f"/tmp/imp-{sid}"
            sh(f"git -C {REPO} worktree remove --force {wt}")
            rc, out = sh(f"git -C {REPO} worktree add --detach {wt} HEAD")
            env = dict(os.environ, PYTHONPATH=wt)
            try:
                rc, clean = sh(f"/venv/bin/python -B {d}/demo.py", cwd=wt, timeout=300, env=env)
                clean_last = clean.strip().splitlines()[-1] if clean.strip() else ""
                rc, out = sh(f"git apply {d}/patch.diff", cwd=wt)
                if rc != 0:
                    meta["confirmed"] = False
                    meta["confirm_note"] = "patch does not apply: " + out[-200:]
                else:
                    rc, broken = sh(f"/venv/bin/python -B {d}/demo.py", cwd=wt, timeout=300, env=env)
                    lines = [l for l in broken.splitlines() if l.startswith("BROKEN")]
                    rc, tests = sh("/venv/bin/python -m pytest -q -p no:cacheprovider --timeout=900 2>&1 | tail -3", cwd=wt, env=env)
                    m = re.search(r"(\d+) failed, (\d+) passed", tests)
                    baseline = bool(m and m.group(1) == "1" and m.group(2) == "119" and "test_save_cache" in tests)
                    meta["confirmed"] = bool(lines) and clean_last.startswith("OK") and baseline
                    meta["confirm_note"] = {"clean": clean_last[:200], "patched": (lines[0] if lines else broken.strip()[-200:])[:300], "tests_baseline": baseline,
                                            "ran": "scratch worktree of /repo HEAD: demo (clean) -> OK; git apply patch.diff; demo -> BROKEN; pytest -> baseline (1 failed test_save_cache, 119 passed)"}
            finally:
                sh(f"git -C {REPO} worktree remove --force {wt}")
            json.dump(meta, open(f"{d}/meta.json", "w"), indent=1)
            print(sid, "confirmed" if meta.get("confirmed") else "NOT CONFIRMED", "|", meta.get("title", "")[:90], flush=True)
            if not meta.get("confirmed"):
                print("   ", meta.get("confirm_note"))


if __name__ == "__main__":
    main(sys.argv[1:])
