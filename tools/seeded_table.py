#!/venv/bin/python
"""Regenerate the table of seeded changes in DESIGN.md (between the SEEDED-TABLE markers) from seeded/*/meta.json and result.json."""
import json
import os
import re

VERIF = os.path.dirname(os.path.dirname(os.path.abspath(__file__)))
rows = []
tot = det = conc = 0
for sid in sorted(os.listdir(os.path.join(VERIF, "seeded"))):
    d = os.path.join(VERIF, "seeded", sid)
    if not os.path.isfile(os.path.join(d, "meta.json")):
        continue
    m = json.load(open(os.path.join(d, "meta.json")))
    r = json.load(open(os.path.join(d, "result.json"))) if os.path.isfile(os.path.join(d, "result.json")) else {}
    keys = sorted({k for c in r.get("checks", []) for k in c.get("keys", [])})
    nofi = any("no-failing-input-found" in l for c in r.get("checks", []) for l in c.get("lines", []))
    verdict = "caught" if r.get("detected") else "MISSED"
    if r.get("detected") and not r.get("with_failing_input"):
        verdict = "caught (no failing input: proof/correspondence only)"
    tot += 1
    det += bool(r.get("detected"))
    conc += bool(r.get("with_failing_input"))
    title = re.sub(r"\s+", " ", m.get("title", ""))[:110]
    needs = re.sub(r"\s+", " ", m.get("trigger", ""))[:160]
    rows.append(f"| {sid} | {title} | {needs} | {verdict} | {', '.join(k.split(':', 1)[1] if ':' in k else k for k in keys)[:120]} |")
table = ["| id | change | needs, to manifest | `./check` of its property | violation keys reported |", "|---|---|---|---|---|"] + rows
summary = f"{tot} seeded changes; {det} caught by the quick check of their property (seeds {{0,1}} where run with two), {conc} of them with a concrete failing input on the real code."
p = os.path.join(VERIF, "DESIGN.md")
s = open(p).read()
a, b = "<!-- SEEDED-TABLE-BEGIN -->", "<!-- SEEDED-TABLE-END -->"
if a in s and b in s:
    s = s[:s.index(a) + len(a)] + "\n" + summary + "\n\n" + "\n".join(table) + "\n" + s[s.index(b):]
    open(p, "w").write(s)
print(summary)
