#!/venv/bin/python
"""Apply each seeded change under /verif/seeded/<id>/ to /repo, run the property's check, undo.

usage: tools/run_seeded.py [id ...] [--tier quick|thorough] [--seeds 0,1]
Writes seeded/<id>/result.json: {demo, checks: [{seed, exit, lines}]}.  /repo is restored with
`git -C /repo checkout -- .` after every change; evidence goes to a scratch directory.
"""
import json
import os
import subprocess
import sys
import tempfile

VERIF = os.path.dirname(os.path.dirname(os.path.abspath(__file__)))
REPO = "/repo"


def sh(cmd, cwd=None, env=None, timeout=3600):
    p = subprocess.run(cmd, shell=True, cwd=cwd, env=env, stdout=subprocess.PIPE, stderr=subprocess.STDOUT, timeout=timeout)
    return p.returncode, p.stdout.decode(errors="replace")


def main(argv):
    tier, seeds, ids = "quick", [0], []
    i = 0
    while i < len(argv):
        if argv[i] == "--tier":
            tier = argv[i + 1]; i += 1
        elif argv[i] == "--seeds":
            seeds = [int(x) for x in argv[i + 1].split(",")]; i += 1
        else:
            ids.append(argv[i])
        i += 1
    root = os.path.join(VERIF, "seeded")
    ids = ids or sorted(os.listdir(root))
    rc, out = sh("git status --porcelain -uno", cwd=REPO)
    if out.strip():
        print("refusing: /repo has local modifications"); return 2
    summary = []
    for sid in ids:
        d = os.path.join(root, sid)
        if not os.path.isfile(os.path.join(d, "patch.diff")):
            continue
        meta = json.load(open(os.path.join(d, "meta.json")))
        pid = meta["property"]
        rc, out = sh(f"git apply --check {d}/patch.diff && git apply {d}/patch.diff", cwd=REPO)
        if rc != 0:
            print(sid, "patch does not apply:", out[-300:]); summary.append((sid, "NO-APPLY")); continue
        result = {"property": pid, "tier": tier, "checks": []}
        try:
            rc, out = sh(f"/venv/bin/python -B {d}/demo.py", cwd=REPO, timeout=300)
            result["demo"] = out.strip().splitlines()[-1][:300] if out.strip() else ""
            with tempfile.TemporaryDirectory(prefix="seeded-ev-") as ev:
                for seed in seeds:
                    env = dict(os.environ, VERIF_SEED=str(seed), VERIF_EVIDENCE_DIR=ev)
                    rc, out = sh(f"./check {pid} {tier}", cwd=VERIF, env=env)
                    lines = [l for l in out.splitlines() if l.startswith(("VIOLATION", "KNOWN-FINDING", pid, "tool error"))]
                    keys = []
                    for l in lines:
                        if l.startswith("VIOLATION") and "replay=" in l:
                            rp = l.split("replay=")[1].split()[0]
                            try:
                                keys.append(json.load(open(os.path.join(VERIF, rp)))["violation"]["key"])
                            except Exception:  # noqa
                                pass
                    result["checks"].append({"seed": seed, "exit": rc, "lines": lines[-6:], "keys": keys})
        finally:
            sh("git checkout -- .", cwd=REPO)
        detected = all(c["exit"] == 1 for c in result["checks"])
        concrete = any(any("no-failing-input-found" not in l for l in c["lines"] if l.startswith("VIOLATION")) for c in result["checks"])
        result["detected"] = detected
        result["with_failing_input"] = concrete
        json.dump(result, open(os.path.join(d, "result.json"), "w"), indent=1)
        print(sid, pid, "DETECTED" if detected else "MISSED", "(failing input)" if concrete else "(no failing input)" if detected else "", "| demo:", result.get("demo", "")[:80])
        summary.append((sid, detected))
    rc, out = sh("git status --porcelain -uno", cwd=REPO)
    if out.strip():
        print("WARNING: /repo not clean:", out)
    return 0


if __name__ == "__main__":
    sys.exit(main(sys.argv[1:]))
