#!/venv/bin/python
"""Run the seeded changes in parallel without touching /repo.

For every seeded/<id>/ a scratch git worktree of /repo (HEAD) and a scratch copy of /verif (with its
Lean build output) are made under /tmp/seedrun/<id>/, the patch is applied to the worktree, the demo
and the property's check are run with PYG_REPO pointing at the worktree, the result is written to
seeded/<id>/result.json, and the scratch directories are removed.

usage: tools/run_seeded_par.py [id ...] [--tier quick|thorough] [--seeds 0,1] [-j N]
"""
import concurrent.futures
import json
import os
import shutil
import subprocess
import sys

VERIF = os.path.dirname(os.path.dirname(os.path.abspath(__file__)))
REPO = "/repo"
SCRATCH = "/tmp/seedrun"
SNAPSHOT = os.path.join(SCRATCH, "_snapshot.%d" % os.getpid())      # /verif as it was when the run started (edits during the run do not reach the jobs)


def sh(cmd, cwd=None, env=None, timeout=7200):
    try:
        p = subprocess.run(cmd, shell=True, cwd=cwd, env=env, stdout=subprocess.PIPE, stderr=subprocess.STDOUT, timeout=timeout)
        return p.returncode, p.stdout.decode(errors="replace")
    except subprocess.TimeoutExpired as e:
        return 2, "tool error: timeout\n" + (e.stdout or b"").decode(errors="replace")


def one(sid, tier, seeds):
    d = os.path.join(VERIF, "seeded", sid)
    meta = json.load(open(os.path.join(d, "meta.json")))
    pid = meta["property"]
    base = os.path.join(SCRATCH, sid)
    shutil.rmtree(base, ignore_errors=True)
    os.makedirs(base)
    wt, vf = os.path.join(base, "repo"), os.path.join(base, "verif")
    result = {"property": pid, "tier": tier, "checks": []}
    try:
        rc, out = sh(f"git -C {REPO} worktree add --detach {wt} HEAD")
        if rc != 0:
            return sid, pid, None, "worktree: " + out[-200:]
        rc, out = sh(f"git apply {d}/patch.diff", cwd=wt)
        if rc != 0:
            return sid, pid, None, "NO-APPLY " + out[-200:]
        sh(f"rsync -a {SNAPSHOT}/ {vf}/")
        env = dict(os.environ, PYG_REPO=wt, PYTHONPATH=wt)
        rc, out = sh(f"/venv/bin/python -B {d}/demo.py", cwd=wt, env=env, timeout=300)
        result["demo"] = out.strip().splitlines()[-1][:300] if out.strip() else ""
        for seed in seeds:
            env = dict(os.environ, VERIF_SEED=str(seed), VERIF_EVIDENCE_DIR=os.path.join(base, "ev"), PYG_REPO=wt)
            rc, out = sh(f"./check {pid} {tier}", cwd=vf, env=env)
            lines = [l for l in out.splitlines() if l.startswith(("VIOLATION", "KNOWN-FINDING", pid, "tool error"))]
            keys = []
            for l in lines:
                if l.startswith("VIOLATION") and "replay=" in l:
                    rp = l.split("replay=")[1].split()[0]
                    try:
                        keys.append(json.load(open(os.path.join(vf, rp)))["violation"]["key"])
                    except Exception:  # noqa
                        pass
            result["checks"].append({"seed": seed, "exit": rc, "lines": lines[-6:], "keys": keys})
            with open(os.path.join(SCRATCH, f"{sid}.seed{seed}.log"), "w") as f:
                f.write(out)
    finally:
        sh(f"git -C {REPO} worktree remove --force {wt}")
        shutil.rmtree(base, ignore_errors=True)
    detected = bool(result["checks"]) and all(c["exit"] == 1 for c in result["checks"])
    concrete = any(any("no-failing-input-found" not in l for l in c["lines"] if l.startswith("VIOLATION")) for c in result["checks"])
    result["detected"] = detected
    result["with_failing_input"] = concrete
    json.dump(result, open(os.path.join(d, "result.json"), "w"), indent=1)
    return sid, pid, detected, ("(failing input)" if concrete else "(no failing input)" if detected else str([c["exit"] for c in result["checks"]])) + " | demo: " + result.get("demo", "")[:70]


def main(argv):
    tier, seeds, ids, jobs = "quick", [0], [], 5
    i = 0
    while i < len(argv):
        if argv[i] == "--tier":
            tier = argv[i + 1]; i += 1
        elif argv[i] == "--seeds":
            seeds = [int(x) for x in argv[i + 1].split(",")]; i += 1
        elif argv[i] == "-j":
            jobs = int(argv[i + 1]); i += 1
        else:
            ids.append(argv[i])
        i += 1
    root = os.path.join(VERIF, "seeded")
    ids = ids or sorted(x for x in os.listdir(root) if os.path.isfile(os.path.join(root, x, "patch.diff")))
    os.makedirs(SCRATCH, exist_ok=True)
    sh(f"rsync -a --delete --exclude .git --exclude replays --exclude seeded {VERIF}/ {SNAPSHOT}/")
    missed = []
    with concurrent.futures.ThreadPoolExecutor(jobs) as ex:
        for sid, pid, det, note in ex.map(lambda s: one(s, tier, seeds), ids):
            print(sid, pid, "DETECTED" if det else "MISSED" if det is False else "ERROR", note, flush=True)
            if not det:
                missed.append(sid)
    sh(f"git -C {REPO} worktree prune")
    shutil.rmtree(SNAPSHOT, ignore_errors=True)
    print("missed:", " ".join(missed))
    return 0


if __name__ == "__main__":
    sys.exit(main(sys.argv[1:]))
