#!/usr/bin/env python3
"""Regenerate MANIFEST.json from the table below (kept valid at all times)."""
import json
import os

HERE = os.path.dirname(os.path.abspath(__file__))
VERIF = os.path.dirname(HERE)
ALL = ["C%02d" % i for i in range(1, 21)]

CHECKS = {
 "C01": dict(
  text="Lean theorems: the selector filter (table extracted from handlers/base.py on every run) is closed under substrings, a secure selector has no '..' component, no NUL, no doubled or back-slash separator, and the lexically normalised path root+selector stays under the root, for all strings. Tie: filter verdicts, unquote, slashnormalize, virtual split, UTF-8 surrogateescape decode and quote agree with the real code on exhaustive short and seeded long inputs. Oracle: two-world non-interference with audit of every open/listdir/exec, hostile catalogue answered not-found, both handler lists, eight protocol syntaxes.",
  note="partial: kernel path resolution and symlinks are assumptions (no symlink leaves the root); Lean kernel + propext/Classical.choice/Quot.sound; extractor and Python harness trusted",
  technique="Lean 4 proof over extracted filter table + differential correspondence + two-world oracle"),
 "C02": dict(
  text="Lean theorems for all request lines and header blocks: the answering protocol is the first in the configured order whose predicate accepts (everything before it rejects), its `secure` flag equals the connection's TLS flag for all nine classes, the shipped list (extracted from conf/pygopherd.conf) is total because both catch-alls are present, detection is a function of (order, TLS flag, first line, header lines); documented shapes of Gopher+, HTTP, Gemini, Spartan; the sniff is TLS iff first byte 0x16 and consumes nothing. Tie: class chosen by the real ProtocolMultiplexer vs the model on a near-miss grammar, both TLS values, shipped order and seeded permutations/sub-lists; wrap_socket on a socketpair for all 256 first bytes (complete).",
  note="partial: MSG_PEEK in the kernel and the TLS record layer are runtime; the WAP header regex is mirrored by hand; Lean kernel + standard axioms; harness trusted",
  technique="Lean 4 proof of the detection model + differential correspondence + exhaustive first-byte enumeration"),
 "C03": dict(
  text="Lean: request parsing and response framing are total functions (one Parsed value, one response, for every line, TLS flag and handler outcome — by type and stated); for every message text a Gemini/Spartan status line is a single line (CR/LF collapsed, proved for all strings), error statuses carry no body, Gopher+ responses start with --2 / +-2 / +N on their own line, every HTTP and WAP response of every outcome starts with an HTTP/1.0 status line and has a terminated header block, HEAD has no body; the shipped protocol list always finds a protocol (C02); and on an unchanged directory any history of earlier listings and clock ticks leaves the answer to a listing request equal to the listing of that directory (through C10's cache invariant, by induction over the history). Tie: not-found framing of all six wire formats and status-line sanitising vs Model/Frame. Oracle: seeded malformed and mostly-valid requests in 9 syntaxes x 2 handler lists — one response accepted by independent validators, no exception leaves the handler, no unhandled error class logged, time bound; then every request replayed on a fresh copy of the tree must give the same masked response (history independence).",
  note="partial: wall-clock bound is reported, only a 60 s hang fails; handler bodies that are library calls (mailbox, ZIP bytes, HTML title, TAL, scripts) enter as outcomes; content is well-formed in the sense of C08/C09",
  technique="Lean 4 proof (framing validity, status-line integrity, history independence via the cache invariant) + correspondence + validator and fresh-copy oracles"),
 "C04": dict(
  text="Lean theorems for all byte strings: the read(copyBlock) loop (block size extracted from VFS_Real.copyto) reproduces the bytes for every positive block size, with non-empty blocks of at most one block; the Gopher+ '+N' header parses back to exactly the body length and the body to the file; unknown size gives '+-2'; HEAD is the GET headers with no body; the WAP text-to-WML conversion is invertible line by line up to right-stripping (and injective); MIME type is the table's answer adjusted per protocol. Tie: blocks written by the real copyto, whole Gopher+/HTTP/WML responses and MIME types vs the model. Oracle: body==file bytes, +N==len, HEAD==GET headers, type==mimetypes, independent WML inverse, for sizes around every multiple of 4096, binary/CRLF/invalid-UTF-8 contents, hostile names, 9 protocol syntaxes, both handler lists.",
  note="partial: TOCTOU between stat and open, TLS record layer and decompressor/script output are runtime (length oracle only); mimetypes.guess_type is an oracle fed to the model",
  technique="Lean 4 proof (copy loop, framing, WML inverse) + differential correspondence + byte-equality oracle"),
 "C05": dict(
  text="Lean theorems for all byte strings: UTF-8/surrogateescape encode(decode bs)=bs, unquote_to_bytes(quote bs)=bs, unquote(quote bs)=decode bs; quote's output alphabet excludes space, TAB, CR, LF, quotes, angle brackets, ?, #, &, =, +, |, NUL, backslash; for every listed selector (decoded from bytes, leading slash, no trailing slash) following its link as HTTP(S) 'GET <quote>', WAP '<waptop><quote>', Spartan, Gopher / Gopher+ hands the handlers exactly that selector (parseRequest composed with the link renderer), the Gemini path and query-prefix round trips, root link. Tie: selector seen by the real handler for every followed link vs the model's parse; links shown in HTTP listings vs the model's quote. Oracle: full crawl from '/' in 7 protocol syntaxes over real directories, gophermaps, mbox/Maildir folders, ZIP archives, PYG/scripts and 36 hostile names; every local link must succeed with the advertised kind.",
  note="request-line tokenisation is a hypothesis of the follow-link theorems (requestParts = [method, link, version]) discharged by the alphabet lemma only informally; reserved URL prefixes (/wap, /GEMINI-QUERY, icons) are configuration namespace, not content; names with TAB/LF are crawled only through URL-based protocols",
  technique="Lean 4 proof (codec and percent-encoding round trips composed with the request parsers) + correspondence + exhaustive crawl oracle"),
 "C06": dict(
  text="Lean theorems: a listed selector resolves to the same handler selector through Gopher, HTTP(S), WAP and Spartan (and the Gemini path pipeline); trailing slash is irrelevant; writedir walks the same entry list in the same order for every view, abstract lines being the only difference and decided uniformly for all non-Gopher+ protocols; a search string with bytes bs reaches the handlers as decode(bs) through the HTTP searchrequest parameter and the Gemini URL query (percent-encoded) and literally through the Gopher tab field. Tie: (selector, search) seen by a recording handler vs Model/Proto on seeded requests in all syntaxes. Oracle (model-free): (name,target) sequences parsed client-side from 7 views x 3 abstract settings of every directory of a generated site are equal; trailing-slash variants; same MIME everywhere; search strings equal through 6 mechanisms.",
  note="Gopher cannot express search strings containing TAB or beginning with + ! $ (protocol syntax); Gemini/Spartan display names pass through backslashreplace by design",
  technique="Lean 4 proof (request-pipeline equalities, walk invariants, query-string decoding) + correspondence + cross-protocol oracle"),
 "C07": dict(
  text="Lean theorems: the listing is invariant under every permutation of the enumeration (members are walked in name order; mergeSort of permutations of a list with distinct names is equal), for both handlers and including link-file collection; the plain handler's listing is exactly, in name order, the entry of every member the ignore pattern does not match and that can be served — nothing else, each once (exact characterisation, nothing_else and all_listed corollaries); dot files and pattern-matched names are hidden; the shipped ignore pattern (extracted from conf) lies inside the modelled regex fragment and its sharp edges are pinned. Tie: real listings of both handlers under seeded os.listdir permutations vs Model/Umn given the same enumeration, byte for byte; regex fragment vs Python re on the name corpus. Oracle: listed == independently computed visible names, each once; identical output under permutations; hidden names retrievable by selector.",
  note="the regex fragment covers alternation/literal/'.'/escape/'$' only (reported degraded otherwise); per-child entries are built from stat/MIME oracles; 'hidden entries remain retrievable' is decided by the oracle, not a theorem",
  technique="Lean 4 proof (sort/permutation invariance, exact listing characterisation) + byte-level correspondence under shuffled enumeration"),
 "C08": dict(
  text="Lean theorems: entrycmp on named entries is exactly the lexicographic order on (class: positive/unnumbered/negative, number, title), total and transitive, and the sorted listing is pairwise in that order for every entry list (numbered first ascending, then unnumbered by title, then negative); mergeentries overrides exactly the fields the block sets and keeps the rest, a block without Numb= leaves the number alone, link entries start unnumbered; a block whose Path does not start with ./ adds a new entry and leaves directory entries untouched; a .cap with Type=X or - hides the file; executable spot checks of the link-file reader on the manual's samples (Host=+/Port=+, relative path normalisation, abstract continuation, .cap). Tie: real UMN listings (menu and '$' view) of generated link files, .cap files and sidecars vs Model/Umn byte for byte. Oracle: independent reference reader of the documented semantics under three extstrip modes.",
  note="the full parser-refines-spec theorem is not proved (the reader is tied by correspondence and spot checks); well-formed link files only; ties on (number,title) excluded as the property says",
  technique="Lean 4 proof (comparator = documented order, merge semantics) + byte-level correspondence + reference-reader oracle"),
 "C09": dict(
  text="Lean theorems for every gophermap file and line: one entry per line in file order (parse distributes over concatenation, no state crosses lines), a line without a tab is an info entry with the stripped text, otherwise first character = type, rest of first field = description, missing selector defaults to the description, a selector starting neither with '/' nor 'URL:' is resolved against the directory, host/port taken when present else unset and rendered as this server, population from the file system never changes authored selector/host/port, well-formed lines never raise; the same parsed list drives every protocol view. Tie: real listings in seven views (Gopher, Gopher+ '+' and '$', HTTP, WAP, Gemini, Spartan) of seeded gophermaps at depth 0-3 vs the model, byte for byte in the rows region, with stat/MIME/sidecar answers of existing targets fed to the model. Oracle: independent reader written from doc/standards/gophermap.txt.",
  note="port fields restricted to ASCII decimals (int() accepts more); boilerplate around the rows and Mod-Date formatting are masked; library answers (stat, mimetypes, regex mapping) are oracles",
  technique="Lean 4 proof of the gophermap parser model + byte-level differential correspondence in seven views"),
 "C10": dict(
  text="Lean state machine over (directory, cache file, clock) with operations mutate / tick / list, integer-second cache mtime and the code's freshness test; theorems by induction over every finite history: the invariant (the cache holds the listing of a directory state that really occurred, stamped with that moment) holds in every reachable state; a hit serves exactly that listing and leaves the cache untouched (no refresh); every listing served shows the directory as it really was at a moment less than the lifetime ago, or as it is now; an expired entry is never used; lifetime 0 always serves the current directory; what is cached is the protocol-free entry list. Tie: seeded operation histories on a real tree with the module clock substituted and cache mtimes set to it, listings through 7 protocol views, vs Cache.run — the sequence of (time, version) pairs must be identical. Oracle: the staleness statement evaluated on the observed history.",
  note="partial: a clock going backwards and a writer slower than a second are not modelled; cache-file mtime is set by the harness to the substituted clock; pickling fidelity is C11's subject",
  technique="Lean 4 proof (invariant by induction over operation histories) + history-level correspondence"),
 "C11": dict(
  text="Lean theorems for every file content: a cache file that does not unpickle is a cache miss answered with the regenerated listing; under PrefixFails (no strict prefix of a written file loads) a file cut at ANY byte yields the cached listing only if complete and the fresh listing otherwise, so the answer is never wrong; the assumption is shown satisfiable by a concrete prefix-free serializer. Tie and validation of the assumption: complete enumeration of every prefix length and the zero-filled file of real cache files on the real code, each followed by a listing request through a seeded protocol view; every prefix is also fed to pickle.loads to validate PrefixFails.",
  note="pickle's grammar is an assumption validated exhaustively per file, not modelled; the ZIP index cache (shelve/dbm.dumb) is never read back on this platform and is not claimed",
  technique="Lean 4 proof over an abstract unpickler + exhaustive prefix enumeration on the real code"),
 "C12": dict(
  text="Lean theorems on the directory model: adding an unservable member (no handler or I/O error while building its entry, contents unreadable) anywhere in the enumeration leaves the listing exactly as it is without it — same success, same entries, same order — for the plain and the UMN handler, for any number of such members (via mergeSort_cons and append lemmas for link collection and entry building); a name containing any forbidden substring of the extracted selector filter yields an insecure child selector whatever the directory. Tie: real listings with injected faults vs the model with those members marked unservable by independent inspection. Oracle: listing of the faulty directory == listing of the healthy twin in 7 views x 2 handlers for dangling and self-looping symlinks, FIFO, socket, vanishing member, filter-rejected names, dot-named variants, singles and pairs.",
  note="EACCES is represented by the vanished-member path; a dot-named FIFO is replaced by a socket (open would block in the OS)",
  technique="Lean 4 proof (fault transparency of the listing function) + correspondence + healthy-twin oracle"),
 "C13": dict(
  text="Lean theorems: for any page built from literal segments and escaped data slots whose slots are all reached outside tag position (a check computed on the literals alone), the tag/attribute skeleton and final tokenizer state are the same for ALL data (skeleton_of_shape, by induction on the segment list); every builder that mirrors pygopherd's HTML/WML generators (HTTP rows for every entry shape and icon of the extracted icon table, directory start, error pages, URL redirect page, WML rows for every counter value and access key, WML error/start pages, text-to-WML for every file) is proved safe and composition-closed; html.escape output never contains < > \" '; the URL filter refuses a double quote; Gopher+ attribute content lines are indented and free of line breaks, so none can pass for a block header. Tie: real listing rows, error pages and WML text pages equal the model's emitted segments byte for byte. Oracle: skeleton(real page with payload) == skeleton(real page with inert twin) in every echo position; header lines server-chosen.",
  note="browser parsing is represented by a four-state tokenizer; the configurable page topper is administrator markup; HTML <title> position only partly exercised",
  technique="Lean 4 proof (skeleton invariance over segment templates) + byte-level correspondence + payload/twin oracle"),
 "C14": dict(
  text="Lean theorems over ALL interleavings of atomic steps: (a) any number of workers each running test / assign-if-empty / use on a shared lazily initialised cell only ever use the configured value (invariant + induction over the schedule); (b) any number of writers that truncate and then write the same bytes S chunk by chunk at their own offsets, interleaved with readers in any order: every image a reader sees agrees with S except for zero-filled holes and is never longer — S or a damaged copy, never another listing; with an unpickler that rejects damaged copies every reader gets S's listing or a cache miss (answered correctly by C11). Tie of the model's vocabulary to the code: static scan of pygopherd/ for module-level names assigned inside functions — exactly the six lazies, each assigned only under an unset-guard from configuration. Runtime: bursts of 16-96 simultaneous real clients (6 protocols, plaintext and TLS) against the real threading and forking servers from a cold start with caches enabled: each response equals its sequential response, the server keeps accepting, children are reaped.",
  note="partial: real thread/process schedules, the GIL, accept queues and child reaping are runtime and only sampled; HolesFail (a damaged pickle does not load) is an assumption, validated for truncations by C11",
  technique="Lean 4 proof over all schedules of the two shared-state mechanisms + static shared-state scan + real concurrent-server runs"),
 "C15": dict(
  text="Lean theorems for every entry: the +INFO block is '+INFO: ' followed by exactly the plain Gopher renderer's line of the same entry; the listing is INFO, ADMIN, VIEWS then one block per extended attribute in the entry's order; +VIEWS is ' <mime>: <size/1024 k>'; for printable sidecar lines the lines a client reads back from a block are exactly the sidecar's right-stripped lines (splitlines of the joined value), each behind one space and free of line breaks (shared with C13); '+' documents are prefixed by the exact length or +-2 (shared with C04). Tie: real '!' responses for files of several MIME classes and sizes and for directories, with every subset of the four sidecars and multi-line/odd contents, vs the model's populate + gplusBlocks byte for byte (Mod-Date masked); '$' listings through the gophermap machinery. Oracle: parsed blocks vs menu line, sidecar files, mimetypes table and size; '$' blocks == each child's '!'.",
  note="time formatting of Mod-Date masked; sidecars compared right-stripped (what the code keeps); stat/mimetypes/regex mapping are oracles fed to the model",
  technique="Lean 4 proof (block structure, sidecar round trip) + byte-level correspondence + block oracle"),
 "C16": dict(
  text="Lean theorems on the archive index model (flat node map + alias entries for resolved link members, walk = _getcacheinode): in every index buildIndex produces, each link entry points at a node the scan of the member list created (or the archive root), resolution never adds, removes or changes a node, and any path — also through links — lands on such a node: symbolic links inside the archive resolve only to other members; dangling, cyclic and climbing links contribute nothing; the node map is a dictionary (set/get, other keys untouched), directory creation keeps existing nodes and creates every prefix; in a link-free index a member whose proper prefixes are directories is found at its own path and nothing exists below a file; the real-file-only guard rejects archive VFSs. Tie: answers of the real VFSZip (exists/isdir/isfile/listdir/which member open reads) for seeded archives with nested members, explicit/implicit directories, dot files, non-ASCII names and relative/absolute/chained/dangling/cyclic/climbing links in shuffled order vs the model; normpath and split vs os.path. Oracle: responses for the extracted tree vs the archive through the server, prefix masked and timestamps removed; mailbox/PYG members are served as plain files.",
  note="partial: ZIP byte format and decompression are zipfile's; the full equivalence with an extracted file system (zipvfs_equiv) is decided by the oracle, not proved; conflict-free archives with one member per name; paths containing '//' are outside the reachable domain (the answer there depends on VFSZip's entrycache memo)",
  technique="Lean 4 proof (index invariants, link resolution inside the index) + VFS-level correspondence + extracted-tree oracle"),
 "C19": dict(
  text="Lean theorems for every option combination and every fault position (unbounded index) of the start-up model: bind and key loading precede any privilege drop, chroot then chdir('/') then setgroups(()) then setregid then setreuid, root rewritten to '/', failure of any step aborts with nothing executed after it. Tie is complete and kernel-checked: the real initialize() is executed under substituted system calls on all 16 x (1 + fault positions) points and `table_agrees` proves the executed table equals the model's.",
  note="trusted: the substitution of os/pwd/grp/socket/ssl entry points observes every privileged call; kernel behaviour of the real system calls and the detach fork are not modelled",
  technique="Lean 4 proof + complete executed-trace table equality (decide in kernel)"),
}

def main():
    checks = []
    for pid in ALL:
        if pid not in CHECKS:
            continue
        c = CHECKS[pid]
        checks.append({
            "property_id": pid,
            "quick_cmd": f"./check {pid} quick",
            "thorough_cmd": f"./check {pid} thorough",
            "evidence_file": f"evidence/{pid}.json",
            "replay_cmd_template": f"./check {pid} --replay {{path}}",
            "engine": "lean-proof+correspondence",
            "level_claimed": {"category": "proof", "text": c["text"], "design_ref": f"DESIGN.md §8 {pid}"},
            "level_note": c["note"],
            "technique": c["technique"],
        })
    m = {
        "version": 1,
        "setup_cmd": "cd /verif && /venv/bin/python -B harness/extract.py >/dev/null 2>&1; cd /verif/lean && lake build",
        "hooks": {
            "guard": "PYGOPHERD_VERIF",
            "enable": "no source hooks: the harness drives /repo's working tree in-process (sys.path=/repo) and through loopback sockets; the guard name is reserved and set in the environment of every check",
            "baseline_off_cmd": "cd /repo && /venv/bin/python -m pytest -ra -q -p no:cacheprovider --timeout=900 --continue-on-collection-errors",
            "source_commits": [],
            "add_only": True,
        },
        "engines": [{
            "name": "lean-proof+correspondence", "path": "check", "serves_properties": sorted(CHECKS),
            "kind_free_text": "Lean 4 theorems about an executable model (lean/PygVerif), tied to /repo by tables re-extracted on every run (Generated.lean) and by differential correspondence through a line-protocol driver; property oracles on the real code supply replays",
        }],
        "checks": checks,
        "not_applicable": [{"property_id": p, "reason": "check not built yet (build order DESIGN.md §10); not declared inapplicable to the technique"}
                           for p in ALL if p not in CHECKS],
        "notes": "All 20 properties are intended to be claimed; see DESIGN.md §9-10. fix: commits in /repo are listed in known_findings.json.",
    }
    with open(os.path.join(VERIF, "MANIFEST.json"), "w") as f:
        json.dump(m, f, indent=1)

main()
